//! Counting global allocator (C18): every allocation made on the current thread while a
//! region is open is counted.
use std::alloc::{GlobalAlloc, Layout, System};
use std::cell::Cell;

pub struct Counting;

thread_local! {
    static COUNT: Cell<u64> = const { Cell::new(0) };
    static ACTIVE: Cell<bool> = const { Cell::new(false) };
}

unsafe impl GlobalAlloc for Counting {
    unsafe fn alloc(&self, layout: Layout) -> *mut u8 {
        let _ = ACTIVE.try_with(|a| {
            if a.get() {
                let _ = COUNT.try_with(|c| c.set(c.get() + 1));
            }
        });
        System.alloc(layout)
    }
    unsafe fn dealloc(&self, ptr: *mut u8, layout: Layout) {
        System.dealloc(ptr, layout)
    }
    unsafe fn realloc(&self, ptr: *mut u8, layout: Layout, new_size: usize) -> *mut u8 {
        let _ = ACTIVE.try_with(|a| {
            if a.get() {
                let _ = COUNT.try_with(|c| c.set(c.get() + 1));
            }
        });
        System.realloc(ptr, layout, new_size)
    }
}

/// Runs `f` with allocation counting on and under `catch_unwind`.
/// Returns (result or None if it panicked, number of allocations made inside).
/// Allocations made by the panic machinery itself are not attributed to the call:
/// when the call panics the count is reported as 0 and `None` tells the story.
pub fn guarded<R>(f: impl FnOnce() -> R) -> (Option<R>, u64) {
    COUNT.with(|c| c.set(0));
    ACTIVE.with(|a| a.set(true));
    let r = std::panic::catch_unwind(std::panic::AssertUnwindSafe(f));
    ACTIVE.with(|a| a.set(false));
    let n = COUNT.with(|c| c.get());
    match r {
        Ok(v) => (Some(v), n),
        Err(_) => (None, 0),
    }
}

pub fn silence_panics() {
    std::panic::set_hook(Box::new(|_| {}));
}
