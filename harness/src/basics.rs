//! Pieces shared by every configuration of the harness (with and without helgoboss-midi's `std`).
use helgoboss_midi::*;
use serde_json::{json, Value};

/// A third-party implementor of `ShortMessage` that provides only the three byte getters.
#[derive(Copy, Clone, Debug, PartialEq, Eq)]
pub struct Foreign(pub u8, pub u8, pub u8);

impl ShortMessage for Foreign {
    fn status_byte(&self) -> u8 {
        self.0
    }
    fn data_byte_1(&self) -> U7 {
        U7::new(self.1)
    }
    fn data_byte_2(&self) -> U7 {
        U7::new(self.2)
    }
}

impl ShortMessageFactory for Foreign {
    unsafe fn from_bytes_unchecked(bytes: (u8, U7, U7)) -> Self {
        Foreign(bytes.0, bytes.1.get(), bytes.2.get())
    }
}

pub fn cc14_report(m: &ControlChange14BitMessage) -> Value {
    json!([
        m.channel().get(),
        m.msb_controller_number().get(),
        m.value().get()
    ])
}

pub fn pn_report(m: &ParameterNumberMessage) -> Value {
    let dt = match m.data_type() {
        DataType::DataEntry => 0,
        DataType::DataIncrement => 1,
        DataType::DataDecrement => 2,
    };
    json!([
        m.channel().get(),
        m.number().get(),
        m.value().get(),
        m.is_registered() as u8,
        m.is_14_bit() as u8,
        dt
    ])
}

/// Builds the real (N)RPN message through the public constructors.
pub fn build_pn(msg: &[i64]) -> ParameterNumberMessage {
    let ch = Channel::new(msg[0] as u8);
    let num = U14::new(msg[1] as u16);
    let reg = msg[3] != 0;
    let b14 = msg[4] != 0;
    let dt = msg[5];
    if b14 {
        let v = U14::new(msg[2] as u16);
        if reg {
            ParameterNumberMessage::registered_14_bit(ch, num, v)
        } else {
            ParameterNumberMessage::non_registered_14_bit(ch, num, v)
        }
    } else {
        let v = U7::new(msg[2] as u8);
        match (reg, dt) {
            (true, 0) => ParameterNumberMessage::registered_7_bit(ch, num, v),
            (true, 1) => ParameterNumberMessage::registered_increment(ch, num, v),
            (true, _) => ParameterNumberMessage::registered_decrement(ch, num, v),
            (false, 0) => ParameterNumberMessage::non_registered_7_bit(ch, num, v),
            (false, 1) => ParameterNumberMessage::non_registered_increment(ch, num, v),
            (false, _) => ParameterNumberMessage::non_registered_decrement(ch, num, v),
        }
    }
}

