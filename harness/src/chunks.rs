//! Chunked row files and a tiny seeded generator.
use std::io::{BufWriter, Write};

pub struct ChunkWriter {
    dir: String,
    per: usize,
    k: usize,
    n_in: usize,
    total: u64,
    w: Option<BufWriter<std::fs::File>>,
}

impl ChunkWriter {
    pub fn new(dir: &str, per: usize) -> ChunkWriter {
        std::fs::create_dir_all(dir).unwrap();
        ChunkWriter { dir: dir.to_string(), per, k: 0, n_in: 0, total: 0, w: None }
    }
    pub fn push(&mut self, row: &[i64]) {
        if self.w.is_none() || self.n_in >= self.per {
            if let Some(mut w) = self.w.take() {
                w.flush().unwrap();
            }
            self.k += 1;
            self.n_in = 0;
            let p = format!("{}/chunk_{}.ndjson", self.dir, self.k);
            self.w = Some(BufWriter::with_capacity(1 << 20, std::fs::File::create(p).unwrap()));
        }
        let w = self.w.as_mut().unwrap();
        w.write_all(b"[").unwrap();
        for (i, x) in row.iter().enumerate() {
            if i > 0 {
                w.write_all(b",").unwrap();
            }
            write!(w, "{}", x).unwrap();
        }
        w.write_all(b"]\n").unwrap();
        self.n_in += 1;
        self.total += 1;
    }
    pub fn finish(mut self) -> (usize, u64) {
        if let Some(mut w) = self.w.take() {
            w.flush().unwrap();
        }
        (self.k, self.total)
    }
}

pub struct Lcg(pub u64);
impl Lcg {
    pub fn next(&mut self) -> u64 {
        self.0 = self.0.wrapping_mul(6364136223846793005).wrapping_add(1442695040888963407);
        self.0 >> 33
    }
    pub fn below(&mut self, n: u64) -> u64 {
        self.next() % n
    }
}

