//! Chunked row files and a tiny seeded generator.
use std::collections::HashSet;
use std::hash::{Hash, Hasher};
use std::io::{BufWriter, Write};
use std::sync::Mutex;

static TABLE: Mutex<String> = Mutex::new(String::new());
static NOTES: Mutex<Vec<String>> = Mutex::new(Vec::new());

/// A remark for the evidence (printed with the statistics of the table).
#[allow(dead_code)]
pub fn note(s: &str) {
    NOTES.lock().unwrap().push(s.replace('"', "'").replace('\\', "/"));
}

/// Names the table being written: selects the rule that makes a row non-trivial.
pub fn set_table(name: &str) {
    *TABLE.lock().unwrap() = name.to_string();
}

/// A row is non-trivial when the call it records succeeded (accepted conversion, constructed
/// message, ...) rather than being a plain rejection.
fn nontrivial(table: &str, r: &[i64]) -> bool {
    match table {
        "short" => r.len() > 9,
        "types" => r[0] != 0 || r[2] == 1,
        "factory" | "pnmsg" => r[6] == 0,
        "ints" => match r[0] {
            0 | 2 => r[6] == 1,
            5 => r[4] == 0,
            6 => r[3] == 1,
            _ => true,
        },
        "serde" => match r[0] {
            0 | 1 => r[5] == 1,
            2 | 3 | 9 | 12 => r[4] == 1,
            4 | 8 => r[7] == 1,
            5 | 15 => r[5] == 1,
            6 => r[2] == 1,
            7 | 17 => r[6] == 1,
            _ => true,
        },
        _ => true,
    }
}

pub struct ChunkWriter {
    dir: String,
    per: usize,
    k: usize,
    n_in: usize,
    total: u64,
    table: String,
    seen: HashSet<u64>,
    distinct_nontrivial: u64,
    /// non-trivial rows per class of row (table-specific key), for the vacuity gates
    classes: std::collections::BTreeMap<String, u64>,
    w: Option<BufWriter<std::fs::File>>,
}

/// The class of a row for the vacuity gates ("was anything of this kind ever accepted?").
fn class_of(table: &str, r: &[i64]) -> String {
    match (table, r[0]) {
        ("serde", 0) => format!("int.form{}", r[2]),
        ("serde", 1) => "int.primitive".to_string(),
        ("serde", 7) | ("serde", 17) => format!("roundtrip.way{}", r[1] / 100),
        ("serde", k) => format!("kind{}", k),
        ("ints", k) => format!("kind{}", k),
        _ => "row".to_string(),
    }
}

impl ChunkWriter {
    pub fn new(dir: &str, per: usize) -> ChunkWriter {
        std::fs::create_dir_all(dir).unwrap();
        ChunkWriter {
            dir: dir.to_string(),
            per,
            k: 0,
            n_in: 0,
            total: 0,
            table: TABLE.lock().unwrap().clone(),
            seen: HashSet::new(),
            distinct_nontrivial: 0,
            classes: Default::default(),
            w: None,
        }
    }
    pub fn push(&mut self, row: &[i64]) {
        let mut h = std::collections::hash_map::DefaultHasher::new();
        row.hash(&mut h);
        let nt = nontrivial(&self.table, row);
        if self.seen.insert(h.finish()) && nt {
            self.distinct_nontrivial += 1;
        }
        if nt {
            *self.classes.entry(class_of(&self.table, row)).or_insert(0) += 1;
        }
        if self.w.is_none() || self.n_in >= self.per {
            if let Some(mut w) = self.w.take() {
                w.flush().unwrap();
            }
            self.k += 1;
            self.n_in = 0;
            let p = format!("{}/chunk_{}.ndjson", self.dir, self.k);
            self.w = Some(BufWriter::with_capacity(1 << 20, std::fs::File::create(p).unwrap()));
        }
        let w = self.w.as_mut().unwrap();
        w.write_all(b"[").unwrap();
        for (i, x) in row.iter().enumerate() {
            if i > 0 {
                w.write_all(b",").unwrap();
            }
            write!(w, "{}", x).unwrap();
        }
        w.write_all(b"]\n").unwrap();
        self.n_in += 1;
        self.total += 1;
    }
    pub fn finish(mut self) -> (usize, u64) {
        if let Some(mut w) = self.w.take() {
            w.flush().unwrap();
        }
        // measured, for the evidence: distinct rows that are non-trivial by the rule above
        let cl: Vec<String> = self.classes.iter().map(|(k, v)| format!("\"{}\":{}", k, v)).collect();
        let notes: Vec<String> = NOTES.lock().unwrap().iter().map(|n| format!("\"{}\"", n)).collect();
        println!("{{\"distinct_nontrivial\":{},\"nontrivial_by_class\":{{{}}},\"notes\":[{}]}}", self.distinct_nontrivial, cl.join(","), notes.join(","));
        (self.k, self.total)
    }
}

pub struct Lcg(pub u64);
impl Lcg {
    pub fn next(&mut self) -> u64 {
        self.0 = self.0.wrapping_mul(6364136223846793005).wrapping_add(1442695040888963407);
        self.0 >> 33
    }
    pub fn below(&mut self, n: u64) -> u64 {
        self.next() % n
    }
}

