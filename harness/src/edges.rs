//! `edges`: complete-edge replay.  TLC dumped every transition of the single-channel machine
//! (state x abstract input); here every one of them is executed on a real scanner that was
//! itself produced by already-executed edges (one snapshot per specification state).
//!
//! Comparisons are `==` against values TLC produced.  A disagreement is not a verdict: the
//! BFS-tree path to the edge is written out as a linear script so that the trace
//! specification (the monitors) can judge it.
use crate::sut::*;
use serde_json::{json, Map, Value};
use std::io::{BufRead, BufWriter, Write};

struct Edge {
    p: usize,
    q: usize,
    op: String,
    m: (u8, u8, u8),
    dt: u64,
    out: Vec<Value>,
}

fn parse_edge(v: &Value) -> Edge {
    let o = v.as_object().unwrap();
    let m = o
        .get("m")
        .and_then(|x| x.as_array())
        .map(|a| {
            (a[0].as_u64().unwrap() as u8, a[1].as_u64().unwrap() as u8, a[2].as_u64().unwrap() as u8)
        })
        .unwrap_or((0, 0, 0));
    Edge {
        p: o["p"].as_u64().unwrap() as usize,
        q: o["q"].as_u64().unwrap() as usize,
        op: o["op"].as_str().unwrap().to_string(),
        m,
        dt: o.get("dt").and_then(|x| x.as_u64()).unwrap_or(0),
        out: o.get("out").and_then(|x| x.as_array()).cloned().unwrap_or_default(),
    }
}

/// channel-0 report of the specification -> the same report on channel `ch`
fn on_channel(r: &Value, ch: u8) -> Value {
    let mut a = r.as_array().unwrap().clone();
    a[0] = json!(ch);
    Value::Array(a)
}

fn apply(inst: &mut Inst, e: &Edge, ch: u8, imp: &str) -> CallResult {
    match e.op.as_str() {
        "feed" => {
            let s = if e.m.0 < 240 { e.m.0 + ch } else { e.m.0 };
            inst.feed(s, e.m.1, e.m.2, imp)
        }
        "poll" => inst.poll(ch),
        "reset" => inst.reset(),
        "tick" => {
            inst.now += e.dt;
            CallResult { out: vec![], gap: false, allocs: 0, panicked: false }
        }
        other => panic!("unknown edge op {other}"),
    }
}

fn script_line(e: &Edge, ch: u8, imp: &str, id: i64) -> Value {
    match e.op.as_str() {
        "feed" => {
            let s = if e.m.0 < 240 { e.m.0 + ch } else { e.m.0 };
            json!({"op": "feed", "id": id, "m": [s, e.m.1, e.m.2], "f": imp})
        }
        "poll" => json!({"op": "poll", "id": id, "ch": ch}),
        "reset" => json!({"op": "reset", "id": id}),
        _ => json!({"op": "tick", "id": id, "dt": e.dt}),
    }
}

pub fn run(args: &[String]) {
    // edges <edges.ndjson> <kind> <timeout> <cap> <channels csv> <impl> <out_prefix>
    crate::alloc::silence_panics();
    let path = &args[0];
    let kind = args[1].as_str();
    let to_ms: i64 = args[2].parse().unwrap();
    let to: i64 = if to_ms < 0 { to_ms } else { to_ms * 2 }; // Inst works in half-milliseconds
    let cap: u64 = args[3].parse().unwrap();
    let channels: Vec<u8> = args[4].split(',').map(|x| x.parse().unwrap()).collect();
    let imp = args[5].as_str();
    let prefix = &args[6];

    let inp = std::io::BufReader::new(std::fs::File::open(path).expect("open edges"));
    let edges: Vec<Edge> = inp
        .lines()
        .map(|l| l.unwrap())
        .filter(|l| !l.trim().is_empty())
        .map(|l| parse_edge(&serde_json::from_str::<Value>(&l).unwrap()))
        .collect();
    let nstates = edges.iter().map(|e| e.p.max(e.q)).max().unwrap_or(0) + 1;

    let mut mism = BufWriter::new(std::fs::File::create(format!("{prefix}.mismatch.script")).unwrap());
    let mut total_edges = 0u64;
    let mut out_mismatch = 0u64;
    let mut nonfunctional = 0u64;
    let mut allocs = 0u64;
    let mut panics = 0u64;
    let mut examples: Vec<Value> = vec![];
    let mut distinct_fp = std::collections::HashSet::new();
    let mut next_id: i64 = 1000;
    let mut adj: Vec<Vec<usize>> = vec![vec![]; nstates];
    for (k, e) in edges.iter().enumerate() {
        adj[e.p].push(k);
    }
    let variant_cap = nstates * 8 + 2000;
    let mut cap_hit = false;
    let mut unreached = 0usize;
    let mut first_paths: Vec<Option<Vec<usize>>> = vec![None; nstates];

    // Explicit-state exploration of the REAL code in lock-step with the specification's state
    // graph: nodes are (specification state, implementation fingerprint).  When the state map is
    // a function there is exactly one node per specification state.
    struct Variant {
        q: usize,
        inst: Inst,
        parent: Option<(usize, usize)>,
    }
    for &ch in &channels {
        let mut vars: Vec<Variant> = vec![];
        let mut seen: std::collections::HashMap<(usize, String), usize> = Default::default();
        let mut first_of: Vec<Option<usize>> = vec![None; nstates];
        set_clock(0);
        let init = Inst::new(kind, to, false);
        seen.insert((0, init.fingerprint(cap)), 0);
        first_of[0] = Some(0);
        vars.push(Variant { q: 0, inst: init, parent: None });
        let mut head = 0usize;
        while head < vars.len() {
            let vi = head;
            head += 1;
            let vq = vars[vi].q;
            for &k in &adj[vq] {
                let e = &edges[k];
                let mut s = vars[vi].inst;
                let r = apply(&mut s, e, ch, imp);
                total_edges += 1;
                allocs += r.allocs;
                if r.panicked {
                    panics += 1;
                }
                let expected: Vec<Value> = e.out.iter().map(|x| on_channel(x, ch)).collect();
                let ok = !r.panicked && !r.gap && r.out == expected;
                let fp = s.fingerprint(cap);
                if ch == channels[0] {
                    distinct_fp.insert(fp.clone());
                }
                let key = (e.q, fp.clone());
                if !seen.contains_key(&key) {
                    match first_of[e.q] {
                        None => first_of[e.q] = Some(vars.len()),
                        Some(f0) => {
                            nonfunctional += 1;
                            if examples.len() < 5 {
                                examples.push(json!({"edge": k, "ch": ch,
                                    "stored": vars[f0].inst.fingerprint(cap), "arrived": fp}));
                            }
                        }
                    }
                    if vars.len() < variant_cap {
                        seen.insert(key, vars.len());
                        vars.push(Variant { q: e.q, inst: s, parent: Some((vi, k)) });
                    } else {
                        cap_hit = true;
                    }
                }
                if !ok {
                    out_mismatch += 1;
                    if out_mismatch <= 40 {
                        // linear history: path of edges to this variant, then e
                        let mut path = vec![k];
                        let mut cur = vi;
                        while let Some((pv, pk)) = vars[cur].parent {
                            path.push(pk);
                            cur = pv;
                        }
                        path.reverse();
                        let id = next_id;
                        next_id += 1;
                        let mut lines = vec![json!({"op": "new", "id": id, "k": kind, "to": to_ms})];
                        for pk in path {
                            lines.push(script_line(&edges[pk], ch, imp, id));
                        }
                        if let Some(Value::Object(last)) = lines.last_mut() {
                            last.insert("edge".into(), json!(k));
                        }
                        for l in lines {
                            serde_json::to_writer(&mut mism, &l).unwrap();
                            mism.write_all(b"\n").unwrap();
                        }
                    }
                }
            }
        }
        if ch == channels[0] {
            // access paths of ALL explored nodes (specification state x implementation fingerprint)
            let mut vp = BufWriter::new(std::fs::File::create(format!("{prefix}.variantpaths")).unwrap());
            for (vi, _) in vars.iter().enumerate().take(4000) {
                let mut path = vec![];
                let mut cur = vi;
                while let Some((pv, pk)) = vars[cur].parent {
                    path.push(pk);
                    cur = pv;
                }
                path.reverse();
                let ops: Vec<Value> = path.iter().map(|&pk| script_line(&edges[pk], ch, imp, 0)).collect();
                serde_json::to_writer(&mut vp, &json!({"state": vars[vi].q, "path": ops})).unwrap();
                vp.write_all(b"\n").unwrap();
            }
            vp.flush().unwrap();
            unreached = first_of.iter().filter(|x| x.is_none()).count();
            for q in 0..nstates {
                if let Some(v0) = first_of[q] {
                    let mut path = vec![];
                    let mut cur = v0;
                    while let Some((pv, pk)) = vars[cur].parent {
                        path.push(pk);
                        cur = pv;
                    }
                    path.reverse();
                    first_paths[q] = Some(path);
                }
            }
        }
    }
    mism.flush().unwrap();

    // access path of every specification state (first channel), for sweeps
    let mut paths = BufWriter::new(std::fs::File::create(format!("{prefix}.paths")).unwrap());
    let ch0 = channels[0];
    for q in 0..nstates {
        if let Some(path) = &first_paths[q] {
            let ops: Vec<Value> = path.iter().map(|&pk| script_line(&edges[pk], ch0, imp, 0)).collect();
            serde_json::to_writer(&mut paths, &json!({"state": q, "path": ops})).unwrap();
            paths.write_all(b"\n").unwrap();
        }
    }
    paths.flush().unwrap();

    let mut rep = Map::new();
    put(&mut rep, "edges_executed", json!(total_edges));
    put(&mut rep, "spec_states", json!(nstates));
    put(&mut rep, "out_mismatches", json!(out_mismatch));
    put(&mut rep, "state_map_functional", json!(nonfunctional == 0));
    put(&mut rep, "nonfunctional_arrivals", json!(nonfunctional));
    put(&mut rep, "distinct_fingerprints", json!(distinct_fp.len()));
    put(&mut rep, "allocs", json!(allocs));
    put(&mut rep, "panics", json!(panics));
    put(&mut rep, "examples", Value::Array(examples));
    put(&mut rep, "variant_cap_hit", json!(cap_hit));
    put(&mut rep, "spec_states_unreached", json!(unreached));
    println!("{}", Value::Object(rep));
}
