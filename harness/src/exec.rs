//! `exec`: run a script (ndjson, one command per line) against the real scanners and write the
//! trace (ndjson, one event per public call, logged at the call's return).
//!
//! Every field of a command that the executor does not interpret is copied to the event
//! unchanged, so that generators (TLC, the Python drivers) can attach the annotations which
//! the trace specification interprets (`tw`, `exp`, `grp`, ...).
use crate::alloc::guarded;
use crate::sut::*;
pub use crate::basics::build_pn;
use helgoboss_midi::*;
use serde_json::{json, Map, Value};
use std::collections::HashMap;
use std::io::{BufRead, BufWriter, Write};

fn geti(o: &Map<String, Value>, k: &str) -> i64 {
    o.get(k).and_then(|v| v.as_i64()).unwrap_or_else(|| panic!("missing int field {k} in {o:?}"))
}

fn gets<'a>(o: &'a Map<String, Value>, k: &str, d: &'a str) -> &'a str {
    o.get(k).and_then(|v| v.as_str()).unwrap_or(d)
}

fn bytes_of(v: &Value) -> (u8, u8, u8) {
    let a = v.as_array().expect("message must be an array");
    (a[0].as_u64().unwrap() as u8, a[1].as_u64().unwrap() as u8, a[2].as_u64().unwrap() as u8)
}

fn ints(v: &Value) -> Vec<i64> {
    v.as_array().unwrap().iter().map(|x| x.as_i64().unwrap()).collect()
}

/// The three calls that make up almost every trace, parsed once (so that `rep` can make them
/// millions of times without touching JSON).
pub enum Quick {
    Feed { id: i64, s: u8, d1: u8, d2: u8, imp: String },
    Poll { id: i64, ch: u8 },
    Reset { id: i64 },
}

impl Quick {
    pub fn of(cmd: &Map<String, Value>) -> Quick {
        let id = geti(cmd, "id");
        match gets(cmd, "op", "") {
            "feed" => {
                let (s, d1, d2) = bytes_of(&cmd["m"]);
                Quick::Feed { id, s, d1, d2, imp: gets(cmd, "f", "raw").to_string() }
            }
            "poll" => Quick::Poll { id, ch: geti(cmd, "ch") as u8 },
            "reset" => Quick::Reset { id },
            other => panic!("not a quick call: {other}"),
        }
    }
}

/// The event of a quick call: the command's own fields plus what was observed.
fn event_quick(cmd: &Map<String, Value>, q: &Quick, r: &CallResult, flag: bool, snow: u64) -> Map<String, Value> {
    let mut ev = cmd.clone();
    match q {
        Quick::Reset { .. } => {
            put(&mut ev, "al", json!(r.allocs));
            put(&mut ev, "pan", json!(r.panicked));
            put(&mut ev, "eqn", json!(flag));
        }
        _ => {
            record_call(&mut ev, r);
            put(&mut ev, "eqp", json!(flag));
            put(&mut ev, "now", json!(snow));
        }
    }
    ev
}

pub struct World {
    pub insts: HashMap<i64, Inst>,
    reps: u64,
    /// origin of the bracketing real-clock readings (`rt` commands)
    epoch: std::time::Instant,
}

impl World {
    pub fn new() -> World {
        World { insts: HashMap::new(), reps: 0, epoch: std::time::Instant::now() }
    }

    /// Makes one feed / poll / reset call; returns what it returned, the equality observed through the
    /// public PartialEq (feed, poll: scanner unchanged; reset: equal to a new scanner) and the clock.
    fn exec_quick(&mut self, q: &Quick) -> (CallResult, bool, u64) {
        match q {
            Quick::Feed { id, s, d1, d2, imp } => {
                let inst = self.insts.get_mut(id).expect("unknown instance");
                let before = inst.sc;
                let r = inst.feed(*s, *d1, *d2, imp);
                (r, inst.sc == before, inst.snow)
            }
            Quick::Poll { id, ch } => {
                let inst = self.insts.get_mut(id).expect("unknown instance");
                let before = inst.sc;
                let r = inst.poll(*ch);
                (r, inst.sc == before, inst.snow)
            }
            Quick::Reset { id } => {
                let inst = self.insts.get_mut(id).expect("unknown instance");
                let r = inst.reset();
                (r, inst.eq_new(), inst.snow)
            }
        }
    }

    /// Executes one command; pushes the resulting event(s) to `sink`.
    pub fn step(&mut self, cmd: &Map<String, Value>, sink: &mut dyn FnMut(Map<String, Value>)) {
        let op = gets(cmd, "op", "").to_string();
        let mut ev = cmd.clone();
        match op.as_str() {
            "new" => {
                let id = geti(cmd, "id");
                let kind = gets(cmd, "k", "cc14");
                // "to": milliseconds (negative = infinite); "toh": half-milliseconds, overrides "to"
                let to_ms = cmd.get("to").and_then(|v| v.as_i64()).unwrap_or(0);
                let to = cmd.get("toh").and_then(|v| v.as_i64()).unwrap_or(if to_ms < 0 { to_ms } else { to_ms * 2 });
                let via_default = gets(cmd, "via", "new") == "default";
                // the instance's clock is set BEFORE the scanner is constructed (a constructor may read it):
                // "now" = start as the specification sees it, "nowx" = the real reading (decimal string)
                let snow0 = cmd.get("now").and_then(|v| v.as_u64()).unwrap_or(0);
                let now0 = match cmd.get("nowx").and_then(|v| v.as_str()) {
                    Some(x) => x.parse().expect("nowx"),
                    None => snow0,
                };
                set_clock(now0);
                let (r, al) = guarded(|| Inst::new(kind, to, via_default));
                match r {
                    Some(mut inst) => {
                        inst.now = now0;
                        inst.snow = snow0;
                        // observable: new() == default()  (for the polling scanner default() == new(0))
                        let other = Inst::new(kind, if via_default { to } else { 0 }, !via_default);
                        put(&mut ev, "eqd", json!(inst.sc == other.sc));
                        self.insts.insert(id, inst);
                        put(&mut ev, "pan", json!(false));
                    }
                    None => put(&mut ev, "pan", json!(true)),
                }
                put(&mut ev, "al", json!(al));
                sink(ev);
            }
            "feed" | "poll" | "reset" => {
                let q = Quick::of(cmd);
                // "rt": bracket the call with two readings of the real clock (microseconds since the start
                // of the run): whatever clock reading the call itself takes lies between them.  The
                // production-configuration drivers use the brackets to DISCARD observations whose
                // early / late classification the real passage of time does not settle.
                let rt = cmd.get("rt").and_then(|v| v.as_bool()).unwrap_or(false);
                // "thr": make the call on a thread of its own (a fresh one per call), so that a twin
                // instance shares no thread-local state with the instance it is compared with
                let thr = cmd.get("thr").and_then(|v| v.as_bool()).unwrap_or(false);
                let epoch = self.epoch;
                let mut call = || {
                    let r0 = if rt { epoch.elapsed().as_micros() as u64 } else { 0 };
                    let x = self.exec_quick(&q);
                    let r1 = if rt { epoch.elapsed().as_micros() as u64 } else { 0 };
                    (r0, x, r1)
                };
                let (r0, (r, flag, snow), r1) = if thr {
                    std::thread::scope(|s| s.spawn(call).join().expect("worker thread"))
                } else {
                    call()
                };
                let mut e = event_quick(cmd, &q, &r, flag, snow);
                if rt {
                    put(&mut e, "r0", json!(r0));
                    put(&mut e, "r1", json!(r1));
                }
                sink(e);
            }
            "tick" => {
                let id = geti(cmd, "id");
                // "dt": what the specification sees; "dtx" (decimal string): the real step when it is larger
                let dt = geti(cmd, "dt") as u64;
                let real = match cmd.get("dtx").and_then(|v| v.as_str()) {
                    Some(x) => {
                        let r: u64 = x.parse().expect("dtx");
                        assert!(dt == r.min(SPEC_TICK_CAP), "dt must be the capped dtx");
                        r
                    }
                    None => {
                        assert!(dt <= SPEC_TICK_CAP, "large time steps need dtx");
                        dt
                    }
                };
                // production-configuration scripts: really wait (the real clock cannot be set)
                if cmd.get("sleep").and_then(|v| v.as_bool()).unwrap_or(false) {
                    std::thread::sleep(std::time::Duration::from_millis(real));
                }
                let go = |i: &mut Inst| {
                    i.now = i.now.saturating_add(real);
                    i.snow += dt;
                };
                if id < 0 {
                    for i in self.insts.values_mut() {
                        go(i);
                    }
                } else {
                    go(self.insts.get_mut(&id).expect("unknown instance"));
                }
                sink(ev);
            }
            // production-configuration scripts: poll until something is reported (at most max_ms of real time);
            // logged as ONE poll - the one a caller sees who polls until the value arrives.  The script
            // declares a time step of the timeout before it, so the specification expects the late result.
            "spin" => {
                let id = geti(cmd, "id");
                let ch = geti(cmd, "ch") as u8;
                let max_ms = cmd.get("max_ms").and_then(|v| v.as_u64()).unwrap_or(2000);
                let t0 = std::time::Instant::now();
                let q = Quick::Poll { id, ch };
                let mut n = 0u64;
                let mut allocs = 0u64;
                let (mut last, mut flag, mut snow);
                loop {
                    let (r, f, sn) = self.exec_quick(&q);
                    n += 1;
                    allocs += r.allocs;
                    let done = !r.out.is_empty() || r.panicked || t0.elapsed().as_millis() as u64 > max_ms;
                    last = r;
                    flag = f;
                    snow = sn;
                    if done {
                        break;
                    }
                }
                last.allocs = allocs;
                let mut c2 = cmd.clone();
                put(&mut c2, "op", json!("poll"));
                let mut e = event_quick(&c2, &q, &last, flag, snow);
                put(&mut e, "spin", json!(n));
                sink(e);
            }
            // the same command n times; of a run of identical events only the first two and the last are
            // logged, the rest is summarised by a "skip" event
            "rep" => {
                let n = geti(cmd, "n");
                let inner = cmd["cmd"].as_object().expect("rep needs cmd").clone();
                let id = geti(&inner, "id");
                let q = Quick::of(&inner);
                let mut prev: Option<(CallResult, bool)> = None;
                let mut skipped = 0i64;
                self.reps += 1;
                let tag = json!(self.reps);      // marks the events that belong to this command
                for i in 0..n {
                    let (r, flag, snow) = self.exec_quick(&q);
                    let same = prev.as_ref().map(|p| p.0.same_as(&r) && p.1 == flag).unwrap_or(false);
                    if i < 2 || i == n - 1 || !same {
                        if skipped > 0 {
                            let mut sk = Map::new();
                            put(&mut sk, "op", json!("skip"));
                            put(&mut sk, "id", json!(id));
                            put(&mut sk, "n", json!(skipped));
                            put(&mut sk, "inrep", tag.clone());
                            sink(sk);
                            skipped = 0;
                        }
                        let mut logged = event_quick(&inner, &q, &r, flag, snow);
                        put(&mut logged, "inrep", tag.clone());
                        sink(logged);
                    } else {
                        skipped += 1;
                    }
                    prev = Some((r, flag));
                }
            }
            "copy" => {
                let id = geti(cmd, "id");
                let to2 = geti(cmd, "to2");
                let src = self.insts.get(&id).expect("unknown instance");
                // "via": "clone" goes through Clone::clone of the scanner type, otherwise the bitwise Copy
                let inst = if gets(cmd, "via", "copy") == "clone" { src.cloned() } else { *src };
                put(&mut ev, "eqc", json!(inst.sc == self.insts[&id].sc));
                self.insts.insert(to2, inst);
                sink(ev);
            }
            "eq" => {
                let a = geti(cmd, "id");
                let b = geti(cmd, "b");
                set_clock(self.insts[&a].now);
                let r = self.insts[&a].sc == self.insts[&b].sc;
                put(&mut ev, "r", json!(r));
                sink(ev);
            }
            // encode a 14-bit CC message with the real encoder and feed the two messages
            "enc14" => {
                let id = geti(cmd, "id");
                let msg = ints(&cmd["msg"]);
                let fac = gets(cmd, "fac", "raw").to_string();
                let (built, al) = guarded(|| {
                    let m = ControlChange14BitMessage::new(
                        Channel::new(msg[0] as u8),
                        ControllerNumber::new(msg[1] as u8),
                        U14::new(msg[2] as u16),
                    );
                    // only the calls under test run inside the counted region
                    let acc = [m.channel().get() as i64, m.msb_controller_number().get() as i64,
                               m.lsb_controller_number().get() as i64, m.value().get() as i64];
                    let bytes = if fac == "str" {
                        let a: [StructuredShortMessage; 2] = m.to_short_messages();
                        [a[0].to_bytes(), a[1].to_bytes()]
                    } else {
                        let a: [RawShortMessage; 2] = m.into();
                        [a[0].to_bytes(), a[1].to_bytes()]
                    };
                    (acc, bytes)
                });
                put(&mut ev, "al", json!(al));
                put(&mut ev, "pan", json!(built.is_none()));
                // what the constructed message reports back about itself
                put(&mut ev, "acc", json!(built.map(|x| x.0.to_vec()).unwrap_or_default()));
                let bytes: Vec<Value> = built
                    .map(|a| a.1.iter().map(|b| json!([b.0, b.1.get(), b.2.get()])).collect())
                    .unwrap_or_default();
                put(&mut ev, "bytes", Value::Array(bytes.clone()));
                sink(ev);
                let n = bytes.len();
                for (i, b) in bytes.iter().enumerate() {
                    let mut f = Map::new();
                    put(&mut f, "op", json!("feed"));
                    put(&mut f, "id", json!(id));
                    put(&mut f, "m", b.clone());
                    if let Some(x) = cmd.get("f") {
                        put(&mut f, "f", x.clone());
                    }
                    put(&mut f, "grp", json!({"k": "rt14", "i": i + 1, "n": n, "msg": msg}));
                    self.step(&f, sink);
                }
            }
            // encode an (N)RPN message with the real encoder and feed the 3 or 4 messages
            "encpn" => {
                let id = geti(cmd, "id");
                let msg = ints(&cmd["msg"]);
                let ord = gets(cmd, "ord", "lsb").to_string();
                let fac = gets(cmd, "fac", "raw").to_string();
                let gk = gets(cmd, "gk", "rtpn").to_string();
                let (built, al) = guarded(|| {
                    let m = build_pn(&msg);
                    let order = if ord == "msb" {
                        DataEntryByteOrder::MsbFirst
                    } else {
                        DataEntryByteOrder::LsbFirst
                    };
                    if fac == "str" {
                        let a: [Option<StructuredShortMessage>; 4] = m.to_short_messages(order);
                        [a[0].map(|x| x.to_bytes()), a[1].map(|x| x.to_bytes()),
                         a[2].map(|x| x.to_bytes()), a[3].map(|x| x.to_bytes())]
                    } else {
                        let a: [Option<RawShortMessage>; 4] = m.to_short_messages(order);
                        [a[0].map(|x| x.to_bytes()), a[1].map(|x| x.to_bytes()),
                         a[2].map(|x| x.to_bytes()), a[3].map(|x| x.to_bytes())]
                    }
                });
                put(&mut ev, "al", json!(al));
                put(&mut ev, "pan", json!(built.is_none()));
                // a hole (None followed by Some) in the slot array is recorded, not repaired
                let slots: Vec<Value> = built
                    .map(|a| a.iter().map(|b| match b {
                        Some(b) => json!([b.0, b.1.get(), b.2.get()]),
                        None => json!([]),
                    }).collect())
                    .unwrap_or_default();
                put(&mut ev, "slots", Value::Array(slots.clone()));
                let bytes: Vec<Value> = slots.iter().filter(|x| !x.as_array().unwrap().is_empty()).cloned().collect();
                put(&mut ev, "bytes", Value::Array(bytes.clone()));
                sink(ev);
                let extra = cmd.get("more").and_then(|v| v.as_i64()).unwrap_or(0) as usize;
                let n = bytes.len() + extra;
                for (i, b) in bytes.iter().enumerate() {
                    let mut f = Map::new();
                    put(&mut f, "op", json!("feed"));
                    put(&mut f, "id", json!(id));
                    put(&mut f, "m", b.clone());
                    if let Some(x) = cmd.get("f") {
                        put(&mut f, "f", x.clone());
                    }
                    put(
                        &mut f,
                        "grp",
                        json!({"k": gk, "i": i + 1, "n": n, "msg": msg, "ord": ord}),
                    );
                    self.step(&f, sink);
                }
            }
            other => panic!("unknown op {other}"),
        }
    }
}

pub fn run(script: &str, trace: &str) {
    crate::alloc::silence_panics();
    let inp = std::io::BufReader::new(std::fs::File::open(script).expect("open script"));
    let mut out = BufWriter::new(std::fs::File::create(trace).expect("create trace"));
    let mut world = World::new();
    let mut n = 0u64;
    for line in inp.lines() {
        let line = line.unwrap();
        if line.trim().is_empty() {
            continue;
        }
        let v: Value = serde_json::from_str(&line).expect("script line is JSON");
        let cmd = v.as_object().expect("script line is an object");
        let mut sink = |ev: Map<String, Value>| {
            serde_json::to_writer(&mut out, &Value::Object(ev)).unwrap();
            out.write_all(b"\n").unwrap();
            n += 1;
        };
        world.step(cmd, &mut sink);
    }
    out.flush().unwrap();
    println!("{{\"events\":{n}}}");
}
