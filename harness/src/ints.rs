//! Table `ints` (C04 / C05): the six restricted integer types.  Compiled in every
//! configuration of the harness (with and without helgoboss-midi's `std` feature).
//! Row = [kind, cfg, T, ...]; see spec/MidiInts.tla for the judge.
use crate::alloc::guarded;
use crate::chunks::{ChunkWriter, Lcg};
use core::convert::TryFrom;
use core::fmt::Write as FmtWrite;
use core::str::FromStr;
use helgoboss_midi::*;

pub const PANIC: i64 = -2;

#[cfg(feature = "std")]
pub const CFG: i64 = 0;
#[cfg(not(feature = "std"))]
pub const CFG: i64 = 1;

/// (cls, v): cls 0 = v is exact; 1 / -1 = too large / too small for TLC's 32-bit integers.
fn enc(v: i128) -> (i64, i64) {
    if v > 2_000_000_000 {
        (1, 0)
    } else if v < -2_000_000_000 {
        (-1, 0)
    } else {
        (0, v as i64)
    }
}

struct Buf {
    b: [u8; 64],
    n: usize,
}
impl FmtWrite for Buf {
    fn write_str(&mut self, s: &str) -> core::fmt::Result {
        for &c in s.as_bytes() {
            if self.n < 64 {
                self.b[self.n] = c;
                self.n += 1;
            }
        }
        Ok(())
    }
}

fn values_for(lo: i128, hi: i128, exhaustive: bool, r: &mut Lcg, nrand: usize) -> Vec<i128> {
    if exhaustive {
        return (lo..=hi).collect();
    }
    let mut v: Vec<i128> = vec![lo, lo + 1, -1, 0, 1, hi - 1, hi];
    for t in [15i128, 127, 16383, 255, 65535] {
        v.extend_from_slice(&[t - 1, t, t + 1, -t, -t - 1, -t + 1]);
    }
    for k in [4u32, 7, 8, 14, 15, 16, 24, 31, 32, 33, 63, 64, 65, 100, 126] {
        let p = 1i128.checked_shl(k).unwrap_or(i128::MAX);
        v.extend_from_slice(&[p - 1, p, p + 1, -p, -p - 1, -p + 1]);
        // values whose low bytes look valid although the value is not
        v.extend_from_slice(&[p + 5, p + 100, p.wrapping_mul(3) + 7, -p + 5, -(p.wrapping_mul(5)) + 100]);
    }
    for _ in 0..nrand {
        let x = match r.below(4) {
            0 => r.below(70000) as i128 - 35000,
            1 => (r.next() as i128) << 20 | r.next() as i128,
            2 => -(((r.next() as i128) << 31) | r.next() as i128),
            _ => {
                let sh = r.below(120) as u32;
                let base = ((r.next() as i128) << 64) ^ ((r.next() as i128) << 32) ^ (r.next() as i128);
                let y = base >> sh;
                if r.below(2) == 0 { y } else { -y }
            }
        };
        v.push(x);
    }
    v.retain(|x| *x >= lo && *x <= hi);
    v.sort();
    v.dedup();
    v
}

/// Presence probes ("autoref specialisation"): `(&Probe::<T, S>::new()).attempt(x)` calls
/// `T::try_from(x)` when the crate under test implements `TryFrom<S> for T` (directly or through
/// `From`), and returns `None` when it does not - so conversions that do not exist in the pinned
/// tree are exercised as soon as a change adds them, while the harness still compiles without them.
pub struct Probe<T, S>(core::marker::PhantomData<(T, S)>);
impl<T, S> Probe<T, S> {
    pub fn new() -> Self {
        Probe(core::marker::PhantomData)
    }
}
pub trait GetI64 {
    fn getv(&self) -> i64;
}
macro_rules! impl_getv {
    ($($T:ty),*) => { $(impl GetI64 for $T { fn getv(&self) -> i64 { self.get() as i64 } })* };
}
impl_getv!(U4, U7, U14, Channel, KeyNumber, ControllerNumber);
pub trait HasTry<S> {
    fn attempt(&self, x: S) -> Option<Option<i64>>;
}
impl<T: TryFrom<S> + GetI64, S> HasTry<S> for Probe<T, S> {
    fn attempt(&self, x: S) -> Option<Option<i64>> {
        Some(T::try_from(x).ok().map(|y| y.getv()))
    }
}
pub trait NoTry<S> {
    fn attempt(&self, _x: S) -> Option<Option<i64>> {
        None
    }
}
impl<T, S> NoTry<S> for &Probe<T, S> {}

/// primitive sources that have no conversion in the pinned tree
macro_rules! probe_prims {
    ($w:expr, $r:expr, $nrand:expr, $T:ty, $tc:expr, [$(($p:ty, $pc:expr, $ex:expr)),*]) => {
        $(
            {
                let (lo, hi) = prim_range!($p);
                for v in values_for(lo, hi, $ex, $r, $nrand) {
                    let x = v as $p;
                    let (res, al) = guarded(|| (&Probe::<$T, $p>::new()).attempt(x));
                    let (cls, vv) = enc(v);
                    let (ok, val) = match res {
                        Some(Some(Some(y))) => (1, y),
                        Some(Some(None)) => (0, -1),
                        Some(None) => break,          // no such conversion
                        None => (PANIC, PANIC),
                    };
                    $w.push(&[0, CFG, $tc, $pc, cls, vv, ok, val, al as i64]);
                }
            }
        )*
    };
}

/// every ordered pair of distinct restricted types
macro_rules! probe_newtypes {
    ($w:expr, $T:ty, $tc:expr, [$(($S:ty, $sc:expr, $smax:expr)),*]) => {
        $(
            for v in 0..=$smax {
                let x = <$S>::new(v as _);
                let (res, al) = guarded(|| (&Probe::<$T, $S>::new()).attempt(x));
                let (ok, val) = match res {
                    Some(Some(Some(y))) => (1, y),
                    Some(Some(None)) => (0, -1),
                    Some(None) => break,
                    None => (PANIC, PANIC),
                };
                $w.push(&[2, CFG, $tc, 20 + $sc, 0, v as i64, ok, val, al as i64]);
            }
        )*
    };
}

macro_rules! prim_range {
    ($p:ty) => {
        (<$p>::MIN as i128, if (<$p>::MAX as u128) > (i128::MAX as u128) { i128::MAX } else { <$p>::MAX as i128 })
    };
}

macro_rules! try_from_prims {
    ($w:expr, $r:expr, $nrand:expr, $T:ty, $tc:expr, [$(($p:ty, $pc:expr, $ex:expr)),*]) => {
        $(
            {
                let (lo, hi) = prim_range!($p);
                for v in values_for(lo, hi, $ex, $r, $nrand) {
                    let x = v as $p;
                    let (res, al) = guarded(|| <$T>::try_from(x).map(|y| y.get() as i64));
                    let (cls, vv) = enc(v);
                    let (ok, val) = match res {
                        Some(Ok(y)) => (1, y),
                        Some(Err(_)) => (0, -1),
                        None => (PANIC, PANIC),
                    };
                    $w.push(&[0, CFG, $tc, $pc, cls, vv, ok, val, al as i64]);
                }
                // u128 values above i128::MAX
                if (<$p>::MAX as u128) > (i128::MAX as u128) {
                    for x in [<$p>::MAX, <$p>::MAX - 1, (<$p>::MAX / 2).wrapping_add(1), (<$p>::MAX / 2).wrapping_add(100)] {
                        let (res, al) = guarded(|| <$T>::try_from(x).map(|y| y.get() as i64));
                        let (ok, val) = match res {
                            Some(Ok(y)) => (1, y),
                            Some(Err(_)) => (0, -1),
                            None => (PANIC, PANIC),
                        };
                        $w.push(&[0, CFG, $tc, $pc, 1, 0, ok, val, al as i64]);
                    }
                }
            }
        )*
    };
}

macro_rules! from_prims {
    ($w:expr, $T:ty, $tc:expr, [$(($p:ty, $pc:expr)),*]) => {
        $(
            {
                let (lo, hi) = prim_range!($p);
                for v in lo..=hi {
                    let x = v as $p;
                    let (res, al) = guarded(|| <$T>::from(x).get() as i64);
                    $w.push(&[1, CFG, $tc, $pc, 0, v as i64, res.unwrap_or(PANIC), al as i64]);
                }
            }
        )*
    };
}

macro_rules! to_prims {
    ($w:expr, $T:ty, $tc:expr, $max:expr, [$(($p:ty, $pc:expr)),*]) => {
        for v in 0..=$max {
            let x = <$T>::new(v as _);
            $(
                {
                    let (res, al) = guarded(|| <$p>::from(x) as i128);
                    let (cls, vv) = res.map(enc).unwrap_or((0, PANIC));
                    $w.push(&[4, CFG, $tc, $pc, v as i64, cls, vv, al as i64]);
                }
            )*
        }
    };
}

macro_rules! nt_try_from {
    ($w:expr, $T:ty, $tc:expr, $S:ty, $sc:expr, $smax:expr) => {
        for v in 0..=$smax {
            let x = <$S>::new(v as _);
            let (res, al) = guarded(|| <$T>::try_from(x).map(|y| y.get() as i64));
            let (ok, val) = match res {
                Some(Ok(y)) => (1, y),
                Some(Err(_)) => (0, -1),
                None => (PANIC, PANIC),
            };
            $w.push(&[2, CFG, $tc, 20 + $sc, 0, v as i64, ok, val, al as i64]);
        }
    };
}

macro_rules! nt_from {
    ($w:expr, $T:ty, $tc:expr, $S:ty, $sc:expr, $smax:expr) => {
        for v in 0..=$smax {
            let x = <$S>::new(v as _);
            let (res, al) = guarded(|| <$T>::from(x).get() as i64);
            $w.push(&[3, CFG, $tc, 20 + $sc, 0, v as i64, res.unwrap_or(PANIC), al as i64]);
        }
    };
}

macro_rules! basics {
    ($w:expr, $T:ty, $tc:expr, $repr:ty, $max:expr, $strings:expr, $ordvals:expr) => {
        // new: every value of the representation type
        for v in (<$repr>::MIN as i64)..=(<$repr>::MAX as i64) {
            let (res, al) = guarded(|| <$T>::new(v as $repr).get() as i64);
            let (pan, val) = match res {
                Some(y) => (0, y),
                None => (1, -1),
            };
            $w.push(&[5, CFG, $tc, v, pan, val, al as i64]);
        }
        // parse
        for s in $strings.iter() {
            let (res, al) = guarded(|| <$T>::from_str(s).map(|y| y.get() as i64));
            let (ok, val) = match res {
                Some(Ok(y)) => (1, y),
                Some(Err(_)) => (0, -1),
                None => (PANIC, PANIC),
            };
            let mut row = vec![6, CFG, $tc, ok, val, al as i64, s.len() as i64];
            row.extend(s.bytes().map(|b| b as i64));
            $w.push(&row);
        }
        // display into a stack buffer, then parse the text again
        for v in 0..=$max {
            let x = <$T>::new(v as $repr);
            let mut buf = Buf { b: [0; 64], n: 0 };
            let (res, al) = guarded(|| {
                let _ = write!(buf, "{}", x);
            });
            let text = core::str::from_utf8(&buf.b[..buf.n]).unwrap_or("?");
            let (back, al2) = guarded(|| <$T>::from_str(text).map(|y| y.get() as i64));
            let (backok, backval) = match back {
                Some(Ok(y)) => (1, y),
                Some(Err(_)) => (0, -1),
                None => (PANIC, PANIC),
            };
            let al = al + al2;
            let mut row = vec![7, CFG, $tc, v as i64, backok, backval,
                               if res.is_some() { al as i64 } else { PANIC }, buf.n as i64];
            row.extend(buf.b[..buf.n].iter().map(|b| *b as i64));
            $w.push(&row);
        }
        // ordering and equality
        for &a in $ordvals.iter() {
            for &b in $ordvals.iter() {
                let x = <$T>::new(a as $repr);
                let y = <$T>::new(b as $repr);
                let (cells, al) = guarded(|| {
                    let cmp = match x.cmp(&y) {
                        core::cmp::Ordering::Less => 0,
                        core::cmp::Ordering::Equal => 1,
                        core::cmp::Ordering::Greater => 2,
                    };
                    let pc = match x.partial_cmp(&y) {
                        Some(core::cmp::Ordering::Less) => 0,
                        Some(core::cmp::Ordering::Equal) => 1,
                        Some(core::cmp::Ordering::Greater) => 2,
                        None => -1,
                    };
                    [(x < y) as i64, (x <= y) as i64, (x == y) as i64, (x != y) as i64, cmp, pc,
                     x.max(y).get() as i64, x.min(y).get() as i64]
                });
                let c = cells.unwrap_or([PANIC; 8]);
                $w.push(&[8, CFG, $tc, a as i64, b as i64, c[0], c[1], c[2], c[3], c[4], c[5], c[6], c[7], al as i64]);
            }
        }
        $w.push(&[9, CFG, $tc, <$T>::MIN.get() as i64, <$T>::MAX.get() as i64, <$T>::default().get() as i64]);
        // new_unchecked within its contract (every valid value)
        for v in 0..=$max {
            let (res, al) = guarded(|| unsafe { <$T>::new_unchecked(v as $repr) }.get() as i64);
            $w.push(&[10, CFG, $tc, v as i64, res.unwrap_or(PANIC), al as i64]);
        }
        // formatting with flags, width, fill, alignment, sign; Debug and pretty Debug
        for v in [0 as $repr, 1, 9, 10, ($max / 2) as $repr, ($max - 1) as $repr, $max as $repr] {
            let x = <$T>::new(v);
            macro_rules! one {
                ($code:expr, $f:literal) => {{
                    let mut buf = Buf { b: [0; 64], n: 0 };
                    let (res, al) = guarded(|| {
                        let _ = write!(buf, $f, x);
                    });
                    let mut row = vec![11, CFG, $tc, v as i64, $code, if res.is_some() { al as i64 } else { PANIC }, buf.n as i64];
                    row.extend(buf.b[..buf.n].iter().map(|b| *b as i64));
                    $w.push(&row);
                }};
            }
            one!(0, "{:#}");
            one!(1, "{:5}");
            one!(2, "{:<6}");
            one!(3, "{:^7}");
            one!(4, "{:>#8}");
            one!(5, "{:07}");
            one!(6, "{:+}");
            one!(7, "{:*^9}");
            one!(8, "{:.3}");
            one!(20, "{:?}");
            one!(21, "{:#?}");
            one!(22, "{:10?}");
        }
    };
}


/// Census of small string spaces (row kind 12): every string of the space is parsed, every ACCEPTED one is
/// logged as an ordinary parse row (kind 6, judged like any other), and the number of accepted strings is
/// logged for the judge to compare with the number of in-range numerals in the space.  Spaces: 0 = the decimal
/// numerals "0" .. "199999", 1 = the same with a leading '+', 2 = every string of 1 to 3 printable ASCII
/// characters.  Accepted-set = expected-set follows from "every accepted one is right" + "the counts agree".
macro_rules! census {
    ($w:expr, $T:ty, $tc:expr) => {
        let one = |w: &mut ChunkWriter, s: &str, acc: &mut i64| {
            let (res, al) = guarded(|| <$T>::from_str(s).map(|y| y.get() as i64));
            let (ok, val) = match res {
                Some(Ok(y)) => (1, y),
                Some(Err(_)) => (0, -1),
                None => (PANIC, PANIC),
            };
            if ok != 0 || al != 0 {
                if ok == 1 {
                    *acc += 1;
                }
                let mut row = vec![6, CFG, $tc, ok, val, al as i64, s.len() as i64];
                row.extend(s.bytes().map(|b| b as i64));
                w.push(&row);
            }
        };
        for mode in 0..2i64 {
            let mut acc = 0i64;
            let mut buf = Buf { b: [0; 64], n: 0 };
            for v in 0..200000u32 {
                buf.n = 0;
                let _ = if mode == 0 { write!(buf, "{}", v) } else { write!(buf, "+{}", v) };
                one(&mut $w, core::str::from_utf8(&buf.b[..buf.n]).unwrap(), &mut acc);
            }
            $w.push(&[12, CFG, $tc, mode, acc, 200000]);
        }
        let mut acc = 0i64;
        let mut total = 0i64;
        let mut b = [0u8; 3];
        for n in 1..=3usize {
            let mut idx = [0u8; 3];
            loop {
                for i in 0..n {
                    b[i] = 0x20 + idx[i];
                }
                one(&mut $w, core::str::from_utf8(&b[..n]).unwrap(), &mut acc);
                total += 1;
                let mut i = 0;
                while i < n {
                    idx[i] += 1;
                    if idx[i] < 95 {
                        break;
                    }
                    idx[i] = 0;
                    i += 1;
                }
                if i == n {
                    break;
                }
            }
        }
        $w.push(&[12, CFG, $tc, 2, acc, total]);
    };
}

fn strings(tier: &str, r: &mut Lcg) -> Vec<String> {
    let alpha: Vec<char> = "0123456789+- a".chars().collect();
    let mut out: Vec<String> = vec![String::new()];
    let maxlen = if tier == "thorough" { 4 } else { 3 };
    let mut cur: Vec<String> = vec![String::new()];
    for _ in 0..maxlen {
        let mut nxt = vec![];
        for s in &cur {
            for c in &alpha {
                let mut t = s.clone();
                t.push(*c);
                nxt.push(t);
            }
        }
        out.extend(nxt.iter().cloned());
        cur = nxt;
    }
    if tier != "thorough" {
        for _ in 0..6000 {
            let mut t = String::new();
            for _ in 0..4 {
                t.push(alpha[r.below(14) as usize]);
            }
            out.push(t);
        }
    }
    for _ in 0..(if tier == "thorough" { 60000 } else { 6000 }) {
        let mut t = String::new();
        let n = 5 + r.below(6);
        for i in 0..n {
            // mostly digits, so that long numerals and numerals with one foreign character arise
            let c = if r.below(8) == 0 { alpha[r.below(14) as usize] } else if i == 0 && r.below(3) == 0 { '0' } else { alpha[r.below(10) as usize] };
            t.push(c);
        }
        out.push(t);
    }
    for s in ["15", "16", "127", "128", "255", "256", "16383", "16384", "65535", "65536", "99999", "100000",
              "4294967296", "4294967311", "18446744073709551616", "99999999999999999999999", "+15", "+16", "+127",
              "+128", "+16383", "+16384", "-0", "-1", "+-1", "++1", "1+", "1 ", " 1", "0x10", "1e2", "1.0", "١٢", "１２"] {
        out.push(s.to_string());
    }
    // characters outside ASCII whose code point, truncated to a byte, is a digit or a sign; other scripts' digits
    for base in [0x100u32, 0x200, 0x300, 0x1f600, 0x10000, 0xff00, 0x600, 0x6c0] {
        for c in "0123456789+-".chars() {
            if let Some(ch) = char::from_u32(base + c as u32) {
                for t in [format!("{ch}"), format!("{ch}27"), format!("1{ch}"), format!("+{ch}"), format!("{ch}{ch}"), format!("12{ch}3")] {
                    out.push(t);
                }
            }
        }
    }
    for t in ["\u{0661}\u{0662}", "\u{ff11}\u{ff12}", "\u{0967}", "1\u{200b}2", "\u{feff}12", "12\u{0}", "\u{0}12", "1\t", "\n1", "1_0", "0b1", "0o7", "1,0", "٣"] {
        out.push(t.to_string());
    }
    // white space and line ends around a numeral (a lenient parser trims them; `digits only` does not)
    for ws in [" ", "\t", "\n", "\r", "\r\n", "\u{b}", "\u{c}", "\u{a0}", "\u{2003}", "\u{feff}", "\0"] {
        for num in ["5", "+7", "15", "16", "127", "128", "16383", "16384", "0"] {
            out.push(format!("{num}{ws}"));
            out.push(format!("{ws}{num}"));
            out.push(format!("{ws}{num}{ws}"));
        }
    }
    for n in [1usize, 2, 5, 10, 20, 24] {
        for tail in ["0", "7", "15", "16", "127", "128", "16383", "16384"] {
            out.push(format!("{}{}", "0".repeat(n), tail));
            out.push(format!("+{}{}", "0".repeat(n), tail));
        }
    }
    out
}

pub fn table_ints(dir: &str, tier: &str, seed: u64, per: usize) -> (usize, u64) {
    let mut w = ChunkWriter::new(dir, per);
    let mut r = Lcg(seed.wrapping_mul(7919).wrapping_add(3));
    let nrand = if tier == "thorough" { 10000 } else { 600 };
    let strs = strings(tier, &mut r);
    let small: Vec<i64> = (0..16).collect();
    let mid: Vec<i64> = if tier == "thorough" { (0..128).collect() } else { vec![0, 1, 2, 14, 15, 16, 63, 64, 126, 127] };
    let big: Vec<i64> = vec![0, 1, 15, 16, 127, 128, 255, 256, 8191, 8192, 16382, 16383];
    // ordering of U14: every value against the boundary values (thorough) / a seeded sample (quick)
    let u14_all: Vec<i64> = if tier == "thorough" { (0..16384).collect() } else { (0..400).map(|_| r.below(16384) as i64).collect() };
    for &a in &u14_all {
        for &b in &big {
            for (x, y) in [(a, b), (b, a)] {
                let (p, q) = (U14::new(x as u16), U14::new(y as u16));
                let cmp = match p.cmp(&q) {
                    core::cmp::Ordering::Less => 0,
                    core::cmp::Ordering::Equal => 1,
                    core::cmp::Ordering::Greater => 2,
                };
                w.push(&[8, CFG, 2, x, y, (p < q) as i64, (p <= q) as i64, (p == q) as i64, (p != q) as i64, cmp, cmp,
                         p.max(q).get() as i64, p.min(q).get() as i64, 0]);
            }
        }
    }

    // ---- U4 (0)
    try_from_prims!(w, &mut r, nrand, U4, 0, [(u8, 0, true), (u16, 2, true), (i16, 3, true), (u32, 4, false), (i32, 5, false),
        (u64, 6, false), (i64, 7, false), (u128, 8, false), (i128, 9, false), (usize, 10, false), (isize, 11, false)]);
    to_prims!(w, U4, 0, 15, [(u8, 0), (i8, 1), (u16, 2), (i16, 3), (u32, 4), (i32, 5), (u64, 6), (i64, 7), (u128, 8), (i128, 9), (usize, 10), (isize, 11)]);
    nt_try_from!(w, U4, 0, U14, 2, 16383);
    nt_try_from!(w, U4, 0, U7, 1, 127);
    nt_from!(w, U4, 0, Channel, 3, 15);
    basics!(w, U4, 0, u8, 15, strs, small);
    census!(w, U4, 0);
    probe_prims!(w, &mut r, nrand, U4, 0, [(i8, 1, true)]);
    probe_newtypes!(w, U4, 0, [(U7, 1, 127), (U14, 2, 16383), (Channel, 3, 15), (KeyNumber, 4, 127), (ControllerNumber, 5, 127)]);
    // ---- U7 (1)
    try_from_prims!(w, &mut r, nrand, U7, 1, [(u8, 0, true), (u16, 2, true), (i16, 3, true), (u32, 4, false), (i32, 5, false),
        (u64, 6, false), (i64, 7, false), (u128, 8, false), (i128, 9, false), (usize, 10, false), (isize, 11, false)]);
    to_prims!(w, U7, 1, 127, [(u8, 0), (i8, 1), (u16, 2), (i16, 3), (u32, 4), (i32, 5), (u64, 6), (i64, 7), (u128, 8), (i128, 9), (usize, 10), (isize, 11)]);
    nt_try_from!(w, U7, 1, U14, 2, 16383);
    nt_from!(w, U7, 1, U4, 0, 15);
    nt_from!(w, U7, 1, KeyNumber, 4, 127);
    nt_from!(w, U7, 1, ControllerNumber, 5, 127);
    basics!(w, U7, 1, u8, 127, strs, mid);
    census!(w, U7, 1);
    probe_prims!(w, &mut r, nrand, U7, 1, [(i8, 1, true)]);
    probe_newtypes!(w, U7, 1, [(U4, 0, 15), (U14, 2, 16383), (Channel, 3, 15), (KeyNumber, 4, 127), (ControllerNumber, 5, 127)]);
    // ---- U14 (2)
    // i8 -> U14 is driven through try_from: it exists whether the crate offers From<i8> (then the
    // blanket impl makes it infallible) or a checked TryFrom<i8>
    try_from_prims!(w, &mut r, nrand, U14, 2, [(i8, 1, true), (u16, 2, true), (u32, 4, false), (i32, 5, false),
        (u64, 6, false), (i64, 7, false), (u128, 8, false), (i128, 9, false), (usize, 10, false)]);
    from_prims!(w, U14, 2, [(u8, 0)]);
    to_prims!(w, U14, 2, 16383, [(u16, 2), (i16, 3), (u32, 4), (i32, 5), (u64, 6), (i64, 7), (u128, 8), (i128, 9), (usize, 10), (isize, 11)]);
    nt_from!(w, U14, 2, U4, 0, 15);
    nt_from!(w, U14, 2, U7, 1, 127);
    basics!(w, U14, 2, u16, 16383, strs, big);
    census!(w, U14, 2);
    probe_prims!(w, &mut r, nrand, U14, 2, [(i16, 3, true), (isize, 11, false)]);
    probe_newtypes!(w, U14, 2, [(U4, 0, 15), (U7, 1, 127), (Channel, 3, 15), (KeyNumber, 4, 127), (ControllerNumber, 5, 127)]);
    // ---- Channel (3)
    try_from_prims!(w, &mut r, nrand, Channel, 3, [(u8, 0, true), (u16, 2, true), (i16, 3, true), (u32, 4, false), (i32, 5, false),
        (u64, 6, false), (i64, 7, false), (u128, 8, false), (i128, 9, false), (usize, 10, false), (isize, 11, false)]);
    to_prims!(w, Channel, 3, 15, [(u8, 0), (i8, 1), (u16, 2), (i16, 3), (u32, 4), (i32, 5), (u64, 6), (i64, 7), (u128, 8), (i128, 9), (usize, 10), (isize, 11)]);
    nt_from!(w, Channel, 3, U4, 0, 15);
    basics!(w, Channel, 3, u8, 15, strs, small);
    census!(w, Channel, 3);
    probe_prims!(w, &mut r, nrand, Channel, 3, [(i8, 1, true)]);
    probe_newtypes!(w, Channel, 3, [(U4, 0, 15), (U7, 1, 127), (U14, 2, 16383), (KeyNumber, 4, 127), (ControllerNumber, 5, 127)]);
    // ---- KeyNumber (4)
    try_from_prims!(w, &mut r, nrand, KeyNumber, 4, [(u8, 0, true), (u16, 2, true), (i16, 3, true), (u32, 4, false), (i32, 5, false),
        (u64, 6, false), (i64, 7, false), (u128, 8, false), (i128, 9, false), (usize, 10, false), (isize, 11, false)]);
    to_prims!(w, KeyNumber, 4, 127, [(u8, 0), (i8, 1), (u16, 2), (i16, 3), (u32, 4), (i32, 5), (u64, 6), (i64, 7), (u128, 8), (i128, 9), (usize, 10), (isize, 11)]);
    nt_from!(w, KeyNumber, 4, U7, 1, 127);
    basics!(w, KeyNumber, 4, u8, 127, strs, mid);
    census!(w, KeyNumber, 4);
    probe_prims!(w, &mut r, nrand, KeyNumber, 4, [(i8, 1, true)]);
    probe_newtypes!(w, KeyNumber, 4, [(U4, 0, 15), (U7, 1, 127), (U14, 2, 16383), (Channel, 3, 15), (ControllerNumber, 5, 127)]);
    // ---- ControllerNumber (5)
    try_from_prims!(w, &mut r, nrand, ControllerNumber, 5, [(u8, 0, true), (u16, 2, true), (i16, 3, true), (u32, 4, false), (i32, 5, false),
        (u64, 6, false), (i64, 7, false), (u128, 8, false), (i128, 9, false), (usize, 10, false), (isize, 11, false)]);
    to_prims!(w, ControllerNumber, 5, 127, [(u8, 0), (i8, 1), (u16, 2), (i16, 3), (u32, 4), (i32, 5), (u64, 6), (i64, 7), (u128, 8), (i128, 9), (usize, 10), (isize, 11)]);
    nt_from!(w, ControllerNumber, 5, U7, 1, 127);
    basics!(w, ControllerNumber, 5, u8, 127, strs, mid);
    census!(w, ControllerNumber, 5);
    probe_prims!(w, &mut r, nrand, ControllerNumber, 5, [(i8, 1, true)]);
    probe_newtypes!(w, ControllerNumber, 5, [(U4, 0, 15), (U7, 1, 127), (U14, 2, 16383), (Channel, 3, 15), (KeyNumber, 4, 127)]);
    w.finish()
}

pub fn run(args: &[String]) {
    // ints <dir> <tier> <seed> <rows per chunk>
    crate::alloc::silence_panics();
    crate::chunks::set_table("ints");
    let (chunks, rows) = table_ints(&args[0], args[1].as_str(), args[2].parse().unwrap(), args[3].parse().unwrap());
    println!("{{\"chunks\":{chunks},\"rows\":{rows}}}");
}
