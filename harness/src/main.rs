//! Conformance harness for helgoboss-midi: drives the real code, records, compares only by
//! `==` against values TLC produced.  All verdicts are TLC's.
mod alloc;
mod basics;
mod chunks;
mod ints;
#[cfg(feature = "std")]
mod edges;
mod exec;
mod pure;
mod pure2;
#[cfg(feature = "with_serde")]
mod natural;
#[cfg(feature = "with_serde")]
mod serde_probe;
#[cfg(feature = "with_serde")]
mod tree_de;
mod sut;

#[global_allocator]
static GLOBAL: alloc::Counting = alloc::Counting;

fn main() {
    let args: Vec<String> = std::env::args().collect();
    if args.len() < 2 {
        eprintln!("usage: hm-harness <mode> ...");
        std::process::exit(2);
    }
    match args[1].as_str() {
        // (without helgoboss-midi's `std` feature: the two scanners that exist there)
        "exec" => exec::run(&args[2], &args[3]),
        #[cfg(feature = "std")]
        "edges" => edges::run(&args[2..]),
        "table" => pure::run(&args[2..]),
        "firstcall" => pure::first_call(&args[2..]),
        "ints" => ints::run(&args[2..]),
        #[cfg(feature = "with_serde")]
        "serde" => serde_probe::run(&args[2..]),
        m => {
            eprintln!("unknown mode {m}");
            std::process::exit(2);
        }
    }
}
