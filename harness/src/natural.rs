//! Natural representations (C19).  The inputs of the serde probe are not hand-written JSON with
//! assumed field names: they are LEARNED from what `Serialize` emits for valid values built with
//! distinctive field values, and then patched.  A renamed or reordered field therefore changes the
//! probe's inputs together with the crate's format instead of raising a false alarm.
//!
//! Two forms: the self-describing one (`serde_json::to_value`, maps with field names) and the
//! positional one (structs as sequences in serialization order, what non-self-describing formats
//! use), obtained with the small `TreeSer` serializer below (it also answers `is_human_readable()` as configured).
use serde::ser::{self, Serialize};
use serde_json::{json, Value};

#[derive(Debug)]
pub struct PosError(String);
impl std::fmt::Display for PosError {
    fn fmt(&self, f: &mut std::fmt::Formatter) -> std::fmt::Result {
        write!(f, "{}", self.0)
    }
}
impl std::error::Error for PosError {}
impl ser::Error for PosError {
    fn custom<T: std::fmt::Display>(msg: T) -> Self {
        PosError(msg.to_string())
    }
}

/// Serializes into a `Value` tree.  `maps`: structs as maps keyed by field name (self-describing)
/// or as arrays of their fields in serialization order (what non-self-describing formats use).
/// `human`: what `is_human_readable()` answers.  Byte strings become `{"$bytes": [..]}`.
#[derive(Clone, Copy)]
pub struct TreeSer {
    pub maps: bool,
    pub human: bool,
}

pub struct Collect {
    cfg: TreeSer,
    items: Vec<Value>,
    keys: Vec<String>,
    wrap: Option<&'static str>,
    pending_key: Option<String>,
}

impl Collect {
    fn new(cfg: TreeSer, wrap: Option<&'static str>) -> Collect {
        Collect { cfg, items: vec![], keys: vec![], wrap, pending_key: None }
    }
    fn done(self) -> Value {
        let body = if self.keys.len() == self.items.len() && !self.keys.is_empty() {
            Value::Object(self.keys.into_iter().zip(self.items).collect())
        } else {
            Value::Array(self.items)
        };
        match self.wrap {
            Some(name) => json!({ name: body }),
            None => body,
        }
    }
}

macro_rules! collect_impl {
    ($tr:ident, $m:ident $(, $key:ident)?) => {
        impl ser::$tr for Collect {
            type Ok = Value;
            type Error = PosError;
            fn $m<T: ?Sized + Serialize>(&mut self, $($key: &'static str,)? v: &T) -> Result<(), PosError> {
                $(if self.cfg.maps { self.keys.push($key.to_string()); })?
                self.items.push(v.serialize(self.cfg)?);
                Ok(())
            }
            fn end(self) -> Result<Value, PosError> {
                Ok(self.done())
            }
        }
    };
}
collect_impl!(SerializeSeq, serialize_element);
collect_impl!(SerializeTuple, serialize_element);
collect_impl!(SerializeTupleStruct, serialize_field);
collect_impl!(SerializeTupleVariant, serialize_field);
collect_impl!(SerializeStruct, serialize_field, key);
collect_impl!(SerializeStructVariant, serialize_field, key);

impl ser::SerializeMap for Collect {
    type Ok = Value;
    type Error = PosError;
    fn serialize_key<T: ?Sized + Serialize>(&mut self, k: &T) -> Result<(), PosError> {
        match k.serialize(self.cfg)? {
            Value::String(s) => {
                self.pending_key = Some(s);
                Ok(())
            }
            _ => Err(PosError("only string keys".into())),
        }
    }
    fn serialize_value<T: ?Sized + Serialize>(&mut self, v: &T) -> Result<(), PosError> {
        let k = self.pending_key.take().ok_or_else(|| PosError("value without key".into()))?;
        self.keys.push(k);
        self.items.push(v.serialize(self.cfg)?);
        Ok(())
    }
    fn end(self) -> Result<Value, PosError> {
        Ok(self.done())
    }
}

macro_rules! num {
    ($($f:ident $t:ty),*) => { $(fn $f(self, v: $t) -> Result<Value, PosError> { Ok(json!(v)) })* };
}

impl ser::Serializer for TreeSer {
    type Ok = Value;
    type Error = PosError;
    type SerializeSeq = Collect;
    type SerializeTuple = Collect;
    type SerializeTupleStruct = Collect;
    type SerializeTupleVariant = Collect;
    type SerializeMap = Collect;
    type SerializeStruct = Collect;
    type SerializeStructVariant = Collect;
    fn is_human_readable(&self) -> bool {
        self.human
    }
    num!(serialize_bool bool, serialize_i8 i8, serialize_i16 i16, serialize_i32 i32, serialize_i64 i64,
         serialize_u8 u8, serialize_u16 u16, serialize_u32 u32, serialize_u64 u64, serialize_f32 f32, serialize_f64 f64);
    fn serialize_char(self, v: char) -> Result<Value, PosError> {
        Ok(json!(v.to_string()))
    }
    fn serialize_str(self, v: &str) -> Result<Value, PosError> {
        Ok(json!(v))
    }
    fn serialize_bytes(self, v: &[u8]) -> Result<Value, PosError> {
        Ok(json!({ "$bytes": v }))
    }
    fn serialize_none(self) -> Result<Value, PosError> {
        Ok(Value::Null)
    }
    fn serialize_some<T: ?Sized + Serialize>(self, v: &T) -> Result<Value, PosError> {
        v.serialize(self)
    }
    fn serialize_unit(self) -> Result<Value, PosError> {
        Ok(Value::Null)
    }
    fn serialize_unit_struct(self, _: &'static str) -> Result<Value, PosError> {
        Ok(Value::Null)
    }
    fn serialize_unit_variant(self, _: &'static str, _: u32, variant: &'static str) -> Result<Value, PosError> {
        Ok(json!(variant))
    }
    fn serialize_newtype_struct<T: ?Sized + Serialize>(self, _: &'static str, v: &T) -> Result<Value, PosError> {
        v.serialize(self)
    }
    fn serialize_newtype_variant<T: ?Sized + Serialize>(self, _: &'static str, _: u32, variant: &'static str, v: &T) -> Result<Value, PosError> {
        Ok(json!({ variant: v.serialize(self)? }))
    }
    fn serialize_seq(self, _: Option<usize>) -> Result<Collect, PosError> {
        Ok(Collect::new(self, None))
    }
    fn serialize_tuple(self, _: usize) -> Result<Collect, PosError> {
        Ok(Collect::new(self, None))
    }
    fn serialize_tuple_struct(self, _: &'static str, _: usize) -> Result<Collect, PosError> {
        Ok(Collect::new(self, None))
    }
    fn serialize_tuple_variant(self, _: &'static str, _: u32, variant: &'static str, _: usize) -> Result<Collect, PosError> {
        Ok(Collect::new(self, Some(variant)))
    }
    fn serialize_map(self, _: Option<usize>) -> Result<Collect, PosError> {
        if self.maps {
            Ok(Collect::new(self, None))
        } else {
            Err(PosError("maps are not positional".into()))
        }
    }
    fn serialize_struct(self, _: &'static str, _: usize) -> Result<Collect, PosError> {
        Ok(Collect::new(self, None))
    }
    fn serialize_struct_variant(self, _: &'static str, _: u32, variant: &'static str, _: usize) -> Result<Collect, PosError> {
        Ok(Collect::new(self, Some(variant)))
    }
}

pub fn tree<T: Serialize>(v: &T, cfg: TreeSer) -> Value {
    match v.serialize(cfg) {
        Ok(x) => x,
        Err(e) => {
            // a limitation of this test format (e.g. 128-bit integers, non-string map keys), not a verdict
            eprintln!("serde probe: the test serializer cannot represent a value: {e}");
            std::process::exit(2);
        }
    }
}

pub fn self_describing<T: Serialize>(v: &T) -> Value {
    serde_json::to_value(v).expect("to_value")
}

// ------------------------------------------------------------------------------ paths and patches

#[derive(Clone, Debug, PartialEq)]
pub enum Step {
    Key(String),
    Idx(usize),
}
pub type Path = Vec<Step>;

fn walk(v: &Value, path: &mut Path, f: &mut dyn FnMut(&Path, &Value)) {
    f(path, v);
    match v {
        Value::Array(a) => {
            for (i, x) in a.iter().enumerate() {
                path.push(Step::Idx(i));
                walk(x, path, f);
                path.pop();
            }
        }
        Value::Object(o) => {
            for (k, x) in o.iter() {
                path.push(Step::Key(k.clone()));
                walk(x, path, f);
                path.pop();
            }
        }
        _ => {}
    }
}

/// Paths of all numeric leaves of a representation.
pub fn numeric_leaves(v: &Value) -> Vec<Path> {
    let mut out = vec![];
    walk(v, &mut vec![], &mut |p, x| {
        if x.is_number() {
            out.push(p.clone());
        }
    });
    out
}

/// Representations that could not be taken apart (a field could not be located): the inputs that would
/// have been derived from them are skipped, and the evidence says so.
pub static UNLEARNABLE: std::sync::Mutex<Vec<String>> = std::sync::Mutex::new(Vec::new());

fn unlearnable(msg: String) {
    let mut u = UNLEARNABLE.lock().unwrap();
    if !u.contains(&msg) && u.len() < 50 {
        u.push(msg);
    }
}

/// The one place where the number `marker` occurs.
pub fn find_num(v: &Value, marker: i64, what: &str) -> Option<Path> {
    let mut found = vec![];
    walk(v, &mut vec![], &mut |p, x| {
        if x.as_i64() == Some(marker) {
            found.push(p.clone());
        }
    });
    if found.len() != 1 {
        unlearnable(format!("field `{what}` in {v} (marker {marker} occurs {} times)", found.len()));
        return None;
    }
    Some(found.remove(0))
}

/// The one place where two representations differ (leaf level).
pub fn diff_path(a: &Value, b: &Value, what: &str) -> Option<Path> {
    let mut la = vec![];
    walk(a, &mut vec![], &mut |p, x| {
        if !x.is_array() && !x.is_object() {
            la.push((p.clone(), x.clone()));
        }
    });
    let mut diffs = vec![];
    for (p, x) in la {
        if get_path(b, &p) != Some(&x) {
            diffs.push(p);
        }
    }
    if diffs.len() != 1 {
        unlearnable(format!("field `{what}`: {a} vs {b} differ in {} places", diffs.len()));
        return None;
    }
    Some(diffs.remove(0))
}

pub fn get_path<'a>(v: &'a Value, p: &[Step]) -> Option<&'a Value> {
    let mut cur = v;
    for s in p {
        cur = match (s, cur) {
            (Step::Key(k), Value::Object(o)) => o.get(k)?,
            (Step::Idx(i), Value::Array(a)) => a.get(*i)?,
            _ => return None,
        };
    }
    Some(cur)
}

pub fn set_path(v: &mut Value, p: &[Step], new: Value) {
    let mut cur = v;
    for s in p {
        cur = match (s, cur) {
            (Step::Key(k), Value::Object(o)) => o.get_mut(k).expect("path"),
            (Step::Idx(i), Value::Array(a)) => a.get_mut(*i).expect("path"),
            _ => panic!("path"),
        };
    }
    *cur = new;
}

/// A representation of one sample value plus the places of its fields.
pub struct Template {
    pub base: Value,
    pub fields: Vec<(String, Path)>,
}

impl Template {
    pub fn with(&self, vals: &[(&str, Value)]) -> Value {
        let mut v = self.base.clone();
        for (name, val) in vals {
            let p = &self.fields.iter().find(|(n, _)| n == name).unwrap_or_else(|| panic!("no field {name}")).1;
            set_path(&mut v, p, val.clone());
        }
        v
    }
}
