//! `table`: exhaustive / swept tables of the pure layers.  Each row is a JSON array of small
//! integers: the inputs followed by what the real code returned (-1 = None, -2 = panicked).
//! TLC (spec/Tables.tla) judges every row.  No expectation is computed here; the only
//! comparisons are `==` between two results of the real code (flags).
use crate::alloc::guarded;
use crate::basics::Foreign;
use helgoboss_midi::*;
use std::convert::TryFrom;
pub use crate::chunks::{ChunkWriter, Lcg};

pub const NONE: i64 = -1;
pub const PANIC: i64 = -2;

/// Third-party implementor that additionally overrides `to_bytes`.
#[derive(Copy, Clone, Debug, PartialEq, Eq)]
pub struct ForeignTb(pub u8, pub u8, pub u8);

impl ShortMessage for ForeignTb {
    fn status_byte(&self) -> u8 {
        self.0
    }
    fn data_byte_1(&self) -> U7 {
        U7::new(self.1)
    }
    fn data_byte_2(&self) -> U7 {
        U7::new(self.2)
    }
    fn to_bytes(&self) -> (u8, U7, U7) {
        (self.0, U7::new(self.1), U7::new(self.2))
    }
}

impl ShortMessageFactory for ForeignTb {
    unsafe fn from_bytes_unchecked(bytes: (u8, U7, U7)) -> Self {
        ForeignTb(bytes.0, bytes.1.get(), bytes.2.get())
    }
}

pub struct Acc {
    pub allocs: u64,
}

impl Acc {
    /// one guarded API call returning an integer
    pub fn g(&mut self, f: impl FnOnce() -> i64) -> i64 {
        let (r, a) = guarded(f);
        self.allocs += a;
        r.unwrap_or(PANIC)
    }
    pub fn gv<const N: usize>(&mut self, f: impl FnOnce() -> [i64; N]) -> [i64; N] {
        let (r, a) = guarded(f);
        self.allocs += a;
        r.unwrap_or([PANIC; N])
    }
}

fn opt<T: Into<i64>>(o: Option<T>) -> i64 {
    o.map(|x| x.into()).unwrap_or(NONE)
}

pub fn super_code(s: MessageSuperType) -> i64 {
    match s {
        MessageSuperType::ChannelVoice => 0,
        MessageSuperType::ChannelMode => 1,
        MessageSuperType::SystemCommon => 2,
        MessageSuperType::SystemRealTime => 3,
        MessageSuperType::SystemExclusive => 4,
    }
}

pub fn main_code(m: MessageMainCategory) -> i64 {
    match m {
        MessageMainCategory::Channel => 0,
        MessageMainCategory::System => 1,
    }
}

pub fn fuzzy_code(f: FuzzyMessageSuperType) -> i64 {
    match f {
        FuzzyMessageSuperType::Channel => 0,
        FuzzyMessageSuperType::SystemCommon => 1,
        FuzzyMessageSuperType::SystemRealTime => 2,
        FuzzyMessageSuperType::SystemExclusive => 3,
    }
}

pub fn frame_code(f: TimeCodeQuarterFrame) -> [i64; 3] {
    use TimeCodeQuarterFrame::*;
    match f {
        FrameCountLsNibble(v) => [0, v.get() as i64, 0],
        FrameCountMsNibble(v) => [1, v.get() as i64, 0],
        SecondsCountLsNibble(v) => [2, v.get() as i64, 0],
        SecondsCountMsNibble(v) => [3, v.get() as i64, 0],
        MinutesCountLsNibble(v) => [4, v.get() as i64, 0],
        MinutesCountMsNibble(v) => [5, v.get() as i64, 0],
        HoursCountLsNibble(v) => [6, v.get() as i64, 0],
        Last { hours_count_ms_bit, time_code_type } => {
            [7, hours_count_ms_bit as i64, u8::from(time_code_type) as i64]
        }
    }
}

pub fn frame_of(code: [i64; 3]) -> TimeCodeQuarterFrame {
    use TimeCodeQuarterFrame::*;
    let v = U4::new(code[1] as u8);
    match code[0] {
        0 => FrameCountLsNibble(v),
        1 => FrameCountMsNibble(v),
        2 => SecondsCountLsNibble(v),
        3 => SecondsCountMsNibble(v),
        4 => MinutesCountLsNibble(v),
        5 => MinutesCountMsNibble(v),
        6 => HoursCountLsNibble(v),
        _ => Last {
            hours_count_ms_bit: code[1] != 0,
            time_code_type: TimeCodeType::try_from(code[2] as u8).unwrap(),
        },
    }
}

pub fn structured_code(m: &StructuredShortMessage) -> [i64; 4] {
    use StructuredShortMessage::*;
    match *m {
        NoteOff { channel, key_number, velocity } => {
            [0, channel.get() as i64, key_number.get() as i64, velocity.get() as i64]
        }
        NoteOn { channel, key_number, velocity } => {
            [1, channel.get() as i64, key_number.get() as i64, velocity.get() as i64]
        }
        PolyphonicKeyPressure { channel, key_number, pressure_amount } => {
            [2, channel.get() as i64, key_number.get() as i64, pressure_amount.get() as i64]
        }
        ControlChange { channel, controller_number, control_value } => {
            [3, channel.get() as i64, controller_number.get() as i64, control_value.get() as i64]
        }
        ProgramChange { channel, program_number } => [4, channel.get() as i64, program_number.get() as i64, 0],
        ChannelPressure { channel, pressure_amount } => [5, channel.get() as i64, pressure_amount.get() as i64, 0],
        PitchBendChange { channel, pitch_bend_value } => [6, channel.get() as i64, pitch_bend_value.get() as i64, 0],
        SystemExclusiveStart => [7, 0, 0, 0],
        TimeCodeQuarterFrame(f) => {
            let c = frame_code(f);
            [8, c[0], c[1], c[2]]
        }
        SongPositionPointer { position } => [9, position.get() as i64, 0, 0],
        SongSelect { song_number } => [10, song_number.get() as i64, 0, 0],
        TuneRequest => [11, 0, 0, 0],
        SystemExclusiveEnd => [12, 0, 0, 0],
        TimingClock => [13, 0, 0, 0],
        Start => [14, 0, 0, 0],
        Continue => [15, 0, 0, 0],
        Stop => [16, 0, 0, 0],
        ActiveSensing => [17, 0, 0, 0],
        SystemReset => [18, 0, 0, 0],
        SystemCommonUndefined1 => [19, 0, 0, 0],
        SystemCommonUndefined2 => [20, 0, 0, 0],
        SystemRealTimeUndefined1 => [21, 0, 0, 0],
        SystemRealTimeUndefined2 => [22, 0, 0, 0],
    }
}

/// Builds a StructuredShortMessage value directly from its fields (not via from_bytes).
pub fn structured_of(c: [i64; 4]) -> StructuredShortMessage {
    use StructuredShortMessage::*;
    let ch = || Channel::new(c[1] as u8);
    match c[0] {
        0 => NoteOff { channel: ch(), key_number: KeyNumber::new(c[2] as u8), velocity: U7::new(c[3] as u8) },
        1 => NoteOn { channel: ch(), key_number: KeyNumber::new(c[2] as u8), velocity: U7::new(c[3] as u8) },
        2 => PolyphonicKeyPressure {
            channel: ch(),
            key_number: KeyNumber::new(c[2] as u8),
            pressure_amount: U7::new(c[3] as u8),
        },
        3 => ControlChange {
            channel: ch(),
            controller_number: ControllerNumber::new(c[2] as u8),
            control_value: U7::new(c[3] as u8),
        },
        4 => ProgramChange { channel: ch(), program_number: U7::new(c[2] as u8) },
        5 => ChannelPressure { channel: ch(), pressure_amount: U7::new(c[2] as u8) },
        6 => PitchBendChange { channel: ch(), pitch_bend_value: U14::new(c[2] as u16) },
        7 => SystemExclusiveStart,
        8 => TimeCodeQuarterFrame(frame_of([c[1], c[2], c[3]])),
        9 => SongPositionPointer { position: U14::new(c[1] as u16) },
        10 => SongSelect { song_number: U7::new(c[1] as u8) },
        11 => TuneRequest,
        12 => SystemExclusiveEnd,
        13 => TimingClock,
        14 => Start,
        15 => Continue,
        16 => Stop,
        17 => ActiveSensing,
        18 => SystemReset,
        19 => SystemCommonUndefined1,
        20 => SystemCommonUndefined2,
        21 => SystemRealTimeUndefined1,
        _ => SystemRealTimeUndefined2,
    }
}

pub const OBS_LEN: usize = 26;

/// The observation vector: every method of trait ShortMessage on `$m`, each call guarded on its own.
/// A macro, so that the same calls can be made (a) through the trait on a generic `M`, (b) with method
/// syntax on the concrete types (an inherent method shadowing a trait method would be picked up) and
/// (c) on `&&M` receivers (a forwarding `impl ShortMessage for &T` would be picked up).
macro_rules! obs_body {
    ($acc:expr, $m:expr) => {{
        let acc: &mut Acc = $acc;
        let m = $m;
        let mut v = [0i64; OBS_LEN];
        v[0] = acc.g(|| u8::from(m.r#type()) as i64);
        v[1] = acc.g(|| super_code(m.super_type()));
        v[2] = acc.g(|| main_code(m.main_category()));
        v[3] = acc.g(|| opt(m.channel().map(|x| x.get())));
        v[4] = acc.g(|| opt(m.key_number().map(|x| x.get())));
        v[5] = acc.g(|| opt(m.velocity().map(|x| x.get())));
        v[6] = acc.g(|| opt(m.controller_number().map(|x| x.get())));
        v[7] = acc.g(|| opt(m.control_value().map(|x| x.get())));
        v[8] = acc.g(|| opt(m.program_number().map(|x| x.get())));
        v[9] = acc.g(|| opt(m.pressure_amount().map(|x| x.get())));
        v[10] = acc.g(|| opt(m.pitch_bend_value().map(|x| x.get())));
        v[11] = acc.g(|| m.is_note() as i64);
        v[12] = acc.g(|| m.is_note_on() as i64);
        v[13] = acc.g(|| m.is_note_off() as i64);
        v[14] = acc.g(|| m.status_byte() as i64);
        v[15] = acc.g(|| m.data_byte_1().get() as i64);
        v[16] = acc.g(|| m.data_byte_2().get() as i64);
        let b = acc.gv(|| {
            let b = m.to_bytes();
            [b.0 as i64, b.1.get() as i64, b.2.get() as i64]
        });
        v[17..20].copy_from_slice(&b);
        v[20] = acc.g(|| fuzzy_code(m.r#type().super_type()));
        v[21] = acc.g(|| main_code(m.r#type().super_type().main_category()));
        let s = acc.gv(|| structured_code(&m.to_structured()));
        v[22..26].copy_from_slice(&s);
        v
    }};
}

/// (a) through the trait, on any implementor
pub fn obs<M: ShortMessage>(acc: &mut Acc, m: &M) -> [i64; OBS_LEN] {
    obs_body!(acc, m)
}

/// (b) method syntax on the concrete library types
pub fn obs_raw_method(acc: &mut Acc, m: &RawShortMessage) -> [i64; OBS_LEN] {
    let m: RawShortMessage = *m;
    obs_body!(acc, m)
}

pub fn obs_structured_method(acc: &mut Acc, m: &StructuredShortMessage) -> [i64; OBS_LEN] {
    let m: StructuredShortMessage = *m;
    obs_body!(acc, m)
}

/// (c) `&&M` receivers
pub fn obs_raw_refref(acc: &mut Acc, m: &RawShortMessage) -> [i64; OBS_LEN] {
    let m: &&RawShortMessage = &m;
    obs_body!(acc, m)
}

pub fn obs_structured_refref(acc: &mut Acc, m: &StructuredShortMessage) -> [i64; OBS_LEN] {
    let m: &&StructuredShortMessage = &m;
    obs_body!(acc, m)
}

/// A third-party implementor whose byte getters themselves use the trait's provided methods of the
/// message they wrap (an adapter): legal, and re-entrant with respect to any provided method.
#[derive(Copy, Clone, Debug, PartialEq, Eq)]
pub struct Reentrant(pub RawShortMessage);

impl ShortMessage for Reentrant {
    fn status_byte(&self) -> u8 {
        let _ = self.0.to_structured();
        let _ = self.0.is_note_off();
        self.0.status_byte()
    }
    fn data_byte_1(&self) -> U7 {
        let _ = self.0.super_type();
        let _ = self.0.channel();
        self.0.data_byte_1()
    }
    fn data_byte_2(&self) -> U7 {
        let _ = self.0.r#type();
        let _ = self.0.is_note_on();
        self.0.data_byte_2()
    }
}

/// A third-party implementor AND factory that does not keep the bytes verbatim: it stores the
/// structured form (so it reports the canonical bytes, like StructuredShortMessage itself).
#[derive(Clone, Debug, PartialEq, Eq)]
pub struct StructWrap(pub StructuredShortMessage);

impl ShortMessage for StructWrap {
    fn status_byte(&self) -> u8 {
        self.0.status_byte()
    }
    fn data_byte_1(&self) -> U7 {
        self.0.data_byte_1()
    }
    fn data_byte_2(&self) -> U7 {
        self.0.data_byte_2()
    }
}

impl ShortMessageFactory for StructWrap {
    unsafe fn from_bytes_unchecked(bytes: (u8, U7, U7)) -> Self {
        StructWrap(StructuredShortMessage::from_bytes_unchecked(bytes))
    }
}

/// ONE cell of the observation vector, computed without touching any other method first.
pub fn obs_one<M: ShortMessage>(m: &M, j: usize) -> i64 {
    let r = guarded(|| match j {
        0 => u8::from(m.r#type()) as i64,
        1 => super_code(m.super_type()),
        2 => main_code(m.main_category()),
        3 => opt(m.channel().map(|x| x.get())),
        4 => opt(m.key_number().map(|x| x.get())),
        5 => opt(m.velocity().map(|x| x.get())),
        6 => opt(m.controller_number().map(|x| x.get())),
        7 => opt(m.control_value().map(|x| x.get())),
        8 => opt(m.program_number().map(|x| x.get())),
        9 => opt(m.pressure_amount().map(|x| x.get())),
        10 => opt(m.pitch_bend_value().map(|x| x.get())),
        11 => m.is_note() as i64,
        12 => m.is_note_on() as i64,
        13 => m.is_note_off() as i64,
        14 => m.status_byte() as i64,
        15 => m.data_byte_1().get() as i64,
        16 => m.data_byte_2().get() as i64,
        17 => m.to_bytes().0 as i64,
        18 => m.to_bytes().1.get() as i64,
        19 => m.to_bytes().2.get() as i64,
        20 => fuzzy_code(m.r#type().super_type()),
        21 => main_code(m.r#type().super_type().main_category()),
        _ => structured_code(&m.to_structured())[j - 22],
    });
    r.0.unwrap_or(PANIC)
}

/// `firstcall <impl> <j> <s> <d1> <d2>`: a fresh process whose FIRST query to the crate is accessor j
/// (lazily initialised tables, once-cells and the like are cold); prints the row.
pub fn first_call(args: &[String]) {
    crate::alloc::silence_panics();
    let n: Vec<i64> = args.iter().map(|x| x.parse().unwrap()).collect();
    let (imp, j, s, d1, d2) = (n[0], n[1] as usize, n[2] as u8, n[3] as u8, n[4] as u8);
    let mut acc = Acc { allocs: 0 };
    let (first, vec) = match imp {
        2 => {
            let m = Foreign(s, d1, d2);
            (obs_one(&m, j), obs(&mut acc, &m))
        }
        1 => {
            let m = StructuredShortMessage::from_bytes((s, U7::new(d1), U7::new(d2))).unwrap();
            (obs_one(&m, j), obs(&mut acc, &m))
        }
        _ => {
            let m = RawShortMessage::from_bytes((s, U7::new(d1), U7::new(d2))).unwrap();
            (obs_one(&m, j), obs(&mut acc, &m))
        }
    };
    let mut row = vec![imp, j as i64, s as i64, d1 as i64, d2 as i64, first];
    row.extend_from_slice(&vec);
    println!("{}", row.iter().map(|x| x.to_string()).collect::<Vec<_>>().join(","));
}

/// Table `first`: every accessor as the first query of a fresh process, for the three kinds of implementor.
pub fn table_first(dir: &str, _tier: &str, _seed: u64, per: usize) -> (usize, u64) {
    let mut w = ChunkWriter::new(dir, per);
    let exe = std::env::current_exe().expect("own path");
    let msgs: [(u8, u8, u8); 10] = [(0x93, 60, 100), (0x83, 60, 0), (0xb0, 7, 64), (0xb0, 123, 0), (0xc5, 9, 0), (0xe1, 1, 2),
                                    (0xf0, 0, 0), (0xf1, 0x35, 0), (0xf8, 0, 0), (0xff, 0, 0)];
    for (s, d1, d2) in msgs {
        for imp in 0..3 {
            for j in 0..OBS_LEN {
                let out = std::process::Command::new(&exe)
                    .args(["firstcall", &imp.to_string(), &j.to_string(), &s.to_string(), &d1.to_string(), &d2.to_string()])
                    .output()
                    .expect("spawn");
                let text = String::from_utf8_lossy(&out.stdout);
                let row: Vec<i64> = text.trim().split(',').filter_map(|x| x.parse().ok()).collect();
                if row.len() == 6 + OBS_LEN {
                    w.push(&row);
                } else {
                    // the child died: recorded as a panic of that accessor
                    let mut r = vec![imp, j as i64, s as i64, d1 as i64, d2 as i64, PANIC];
                    r.extend_from_slice(&[PANIC; OBS_LEN]);
                    w.push(&r);
                }
            }
        }
    }
    w.finish()
}

fn bytes3<M: ShortMessage>(m: &M) -> [i64; 3] {
    [m.status_byte() as i64, m.data_byte_1().get() as i64, m.data_byte_2().get() as i64]
}

fn flag(acc: &mut Acc, f: impl FnOnce() -> bool) -> i64 {
    acc.g(|| f() as i64)
}

/// One row of table `short`.
pub fn short_row(s: u8, d1: u8, d2: u8) -> Vec<i64> {
    let mut acc = Acc { allocs: 0 };
    let t = (s, U7::new(d1), U7::new(d2));
    let mut row: Vec<i64> = vec![s as i64, d1 as i64, d2 as i64];
    let ok_r = acc.g(|| RawShortMessage::from_bytes(t).is_ok() as i64);
    let ok_s = acc.g(|| StructuredShortMessage::from_bytes(t).is_ok() as i64);
    let ok_f = acc.g(|| Foreign::from_bytes(t).is_ok() as i64);
    let ok_t = acc.g(|| RawShortMessage::try_from(t).is_ok() as i64);
    let ok_w = acc.g(|| StructWrap::from_bytes(t).is_ok() as i64);
    row.extend_from_slice(&[ok_r, ok_s, ok_f, ok_t, ok_w]);
    if ok_r != 1 || ok_s != 1 || ok_f != 1 || ok_t != 1 || ok_w != 1 || s < 128 {
        row.push(acc.allocs as i64);
        return row;
    }
    let raw = RawShortMessage::from_bytes(t).unwrap();
    let st = match guarded(|| StructuredShortMessage::from_bytes(t).unwrap()) {
        (Some(x), a) => {
            acc.allocs += a;
            x
        }
        (None, _) => {
            // constructing the structured form panicked: recorded, judged by the spec
            row.push(acc.allocs as i64);
            row.push(PANIC);
            return row;
        }
    };
    let fo = Foreign(s, d1, d2);
    let ftb = ForeignTb(s, d1, d2);
    let vec_r = obs(&mut acc, &raw);
    let vec_s = obs(&mut acc, &st);
    let vec_f = obs(&mut acc, &fo);
    let vec_ftb = obs(&mut acc, &ftb);
    let mut flags = [0i64; 16];
    flags[0] = (vec_f == vec_r) as i64;
    flags[1] = (vec_ftb == vec_r) as i64;
    flags[2] = flag(&mut acc, || raw.to_other::<StructuredShortMessage>() == st);
    flags[3] = flag(&mut acc, || StructuredShortMessage::from_other(&raw) == st);
    flags[4] = flag(&mut acc, || raw.to_structured() == st);
    flags[5] = flag(&mut acc, || fo.to_structured() == st && ftb.to_structured() == st);
    flags[6] = flag(&mut acc, || st.to_structured() == st);
    flags[7] = flag(&mut acc, || st.to_other::<StructuredShortMessage>() == st);
    flags[8] = flag(&mut acc, || RawShortMessage::from_other(&st) == st.to_other::<RawShortMessage>());
    let back_raw = acc.gv(|| bytes3(&st.to_other::<RawShortMessage>()));
    let back_for = acc.gv(|| bytes3(&st.to_other::<Foreign>()));
    flags[9] = (back_raw == back_for) as i64;
    // second round trip: raw -> structured -> raw -> structured -> raw
    let (rt2, a) = guarded(|| {
        let r1: RawShortMessage = st.to_other();
        let s2: StructuredShortMessage = r1.to_other();
        let r2: RawShortMessage = s2.to_other();
        (bytes3(&r2), s2 == st)
    });
    acc.allocs += a;
    let (rt2_bytes, rt2_eq) = rt2.map(|(b, e)| (b, e as i64)).unwrap_or(([PANIC; 3], PANIC));
    flags[10] = rt2_eq;
    flags[11] = flag(&mut acc, || raw.to_other::<RawShortMessage>() == raw && Foreign::from_other(&raw) == fo);
    // third-party implementors as SOURCE of conversions, towards every implementation
    flags[12] = flag(&mut acc, || fo.to_other::<RawShortMessage>() == raw && RawShortMessage::from_other(&fo) == raw);
    flags[13] = flag(&mut acc, || ftb.to_other::<RawShortMessage>() == raw && RawShortMessage::from_other(&ftb) == raw);
    flags[14] = flag(&mut acc, || fo.to_other::<ForeignTb>() == ftb && ftb.to_other::<Foreign>() == fo
        && Foreign::from_other(&ftb) == fo && ForeignTb::from_other(&fo) == ftb);
    flags[15] = flag(&mut acc, || StructuredShortMessage::from_other(&fo) == st && StructuredShortMessage::from_other(&ftb) == st
        && st.to_other::<ForeignTb>().to_structured() == st);
    let into = acc.gv(|| {
        let b: (u8, U7, U7) = raw.into();
        [b.0 as i64, b.1.get() as i64, b.2.get() as i64]
    });
    // the tuple conversion as a constructor
    let tryf = acc.gv(|| bytes3(&RawShortMessage::try_from(t).unwrap()));
    // ---- other ways of reaching the same methods, other implementors, other histories
    let mut flags2 = [0i64; 8];
    flags2[0] = (obs_raw_refref(&mut acc, &raw) == vec_r && obs_structured_refref(&mut acc, &st) == vec_s) as i64;
    flags2[1] = (obs_raw_method(&mut acc, &raw) == vec_r) as i64;
    flags2[2] = (obs_structured_method(&mut acc, &st) == vec_s) as i64;
    flags2[3] = (obs(&mut acc, &Reentrant(raw)) == vec_r) as i64;
    let wrapped = guarded(|| StructWrap::from_bytes(t).unwrap()).0;
    flags2[4] = match &wrapped {
        Some(w) => (obs(&mut acc, w) == vec_s) as i64,
        None => PANIC,
    };
    flags2[5] = match &wrapped {
        Some(w) => flag(&mut acc, || w.0 == st && StructWrap::from_other(&raw) == *w && w.to_other::<RawShortMessage>() == st.to_other::<RawShortMessage>()),
        None => PANIC,
    };
    // the same questions again after unrelated calls (decoys sharing the status byte / the data bytes):
    // an answer that depends on what was asked before is not a function of the message
    let decoy = |acc: &mut Acc, a: u8, b: u8, c: u8| {
        if let Ok(m) = RawShortMessage::from_bytes((a, U7::new(b), U7::new(c))) {
            let _ = obs(acc, &m);
            let _ = guarded(|| obs(&mut Acc { allocs: 0 }, &m.to_structured()));
        }
    };
    decoy(&mut acc, s, d1 ^ 0x7f, d2 ^ 0x55);
    let again_r = obs(&mut acc, &raw);
    decoy(&mut acc, s ^ 0x10, d1, d2);
    let again_f = obs(&mut acc, &fo);
    decoy(&mut acc, 0xf8, d2, d1);
    let again_s = obs(&mut acc, &st);
    // decoys RELATED to the message: its mirror image (data bytes swapped), its neighbour on the next channel /
    // status, a one-bit neighbour in the last data byte - a memo whose key is built carelessly confuses exactly these
    decoy(&mut acc, s, d2, d1);
    let again_r2 = obs(&mut acc, &raw);
    decoy(&mut acc, s, d2, d1);
    let again_f2 = obs(&mut acc, &fo);
    decoy(&mut acc, s ^ 0x01, d1, d2);
    let again_s2 = obs(&mut acc, &st);
    decoy(&mut acc, s, d1, d2 ^ 0x01);
    let again_r3 = obs(&mut acc, &raw);
    flags2[6] = (again_r == vec_r && again_f == vec_r && again_s == vec_s
        && again_r2 == vec_r && again_f2 == vec_r && again_s2 == vec_s && again_r3 == vec_r) as i64;
    flags2[7] = flag(&mut acc, || RawShortMessage::try_from(t).ok() == RawShortMessage::from_bytes(t).ok() && raw.clone() == raw);
    row.push(acc.allocs as i64);
    row.extend_from_slice(&vec_r);
    row.extend_from_slice(&vec_s);
    row.extend_from_slice(&flags);
    row.extend_from_slice(&back_raw);
    row.extend_from_slice(&rt2_bytes);
    row.extend_from_slice(&into);
    row.extend_from_slice(&tryf);
    row.extend_from_slice(&flags2);
    row
}

pub const BOUNDARY: [u8; 21] =
    [0, 1, 2, 7, 8, 15, 16, 31, 32, 33, 63, 64, 95, 96, 101, 102, 119, 120, 121, 126, 127];

pub fn table_short(dir: &str, tier: &str, seed: u64, per: usize) -> (usize, u64) {
    let mut w = ChunkWriter::new(dir, per);
    if tier == "thorough" {
        for s in 0..=255u8 {
            for d1 in 0..128u8 {
                for d2 in 0..128u8 {
                    w.push(&short_row(s, d1, d2));
                }
            }
        }
    } else {
        for s in 0..=255u8 {
            for &d1 in BOUNDARY.iter() {
                for &d2 in BOUNDARY.iter() {
                    w.push(&short_row(s, d1, d2));
                }
            }
            // every value of one data byte against a few values of the other
            for d1 in 0..128u8 {
                for &d2 in &[0u8, 1, 5, 64, 127] {
                    w.push(&short_row(s, d1, d2));
                    w.push(&short_row(s, d2, d1));
                }
            }
        }
        let mut r = Lcg(seed.wrapping_mul(2654435761).wrapping_add(17));
        for _ in 0..50000 {
            let s = if r.below(10) == 0 { r.below(128) as u8 } else { 128 + r.below(128) as u8 };
            w.push(&short_row(s, r.below(128) as u8, r.below(128) as u8));
        }
    }
    w.finish()
}

/// One row of table `structured`: a StructuredShortMessage value built directly from its fields.
pub fn structured_row(c: [i64; 4]) -> Vec<i64> {
    let mut acc = Acc { allocs: 0 };
    let mut row: Vec<i64> = c.to_vec();
    let x = match guarded(|| structured_of(c)) {
        (Some(x), a) => {
            acc.allocs += a;
            x
        }
        (None, _) => {
            row.push(PANIC);
            return row;
        }
    };
    let vec_x = obs(&mut acc, &x);
    let raw_bytes = acc.gv(|| bytes3(&x.to_other::<RawShortMessage>()));
    let f1 = flag(&mut acc, || x.to_other::<RawShortMessage>().to_other::<StructuredShortMessage>() == x);
    let f2 = flag(&mut acc, || x.to_structured() == x);
    let f3 = flag(&mut acc, || StructuredShortMessage::from_bytes(x.to_bytes()).map(|y| y == x).unwrap_or(false));
    let f4 = flag(&mut acc, || x.to_other::<StructuredShortMessage>() == x && StructuredShortMessage::from_other(&x) == x);
    let f5 = flag(&mut acc, || x.to_other::<Foreign>().to_structured() == x);
    row.push(acc.allocs as i64);
    row.extend_from_slice(&vec_x);
    row.extend_from_slice(&raw_bytes);
    row.extend_from_slice(&[f1, f2, f3, f4, f5]);
    row
}

fn d14(tier: &str) -> Vec<i64> {
    if tier == "thorough" {
        (0..16384).collect()
    } else {
        vec![0, 1, 127, 128, 129, 255, 256, 8191, 8192, 16255, 16256, 16382, 16383]
    }
}

pub fn table_structured(dir: &str, tier: &str, _seed: u64, per: usize) -> (usize, u64) {
    let mut w = ChunkWriter::new(dir, per);
    let d: Vec<i64> = if tier == "thorough" { (0..128).collect() } else { BOUNDARY.iter().map(|&x| x as i64).collect() };
    for v in 0..=3 {
        for c in 0..16 {
            for &a in &d {
                for &b in &d {
                    w.push(&structured_row([v, c, a, b]));
                }
            }
        }
    }
    for v in 4..=5 {
        for c in 0..16 {
            for a in 0..128 {
                w.push(&structured_row([v, c, a, 0]));
            }
        }
    }
    for c in 0..16 {
        for &a in &d14(tier) {
            w.push(&structured_row([6, c, a, 0]));
        }
    }
    for k in 0..7 {
        for a in 0..16 {
            w.push(&structured_row([8, k, a, 0]));
        }
    }
    for a in 0..2 {
        for t in 0..4 {
            w.push(&structured_row([8, 7, a, t]));
        }
    }
    for &a in &d14(tier) {
        w.push(&structured_row([9, a, 0, 0]));
    }
    for a in 0..128 {
        w.push(&structured_row([10, a, 0, 0]));
    }
    for v in [7, 11, 12, 13, 14, 15, 16, 17, 18, 19, 20, 21, 22] {
        w.push(&structured_row([v, 0, 0, 0]));
    }
    w.finish()
}

/// Rows of table `types`; the first cell is the kind of row.
pub fn types_row(kind: i64, a: &[i64]) -> Vec<i64> {
    let mut acc = Acc { allocs: 0 };
    let mut row = vec![kind];
    row.extend_from_slice(a);
    match kind {
        // ShortMessageType::try_from(u8), back to u8, fuzzy super type, its main category
        0 => {
            let b = a[0] as u8;
            let r = acc.gv(|| match ShortMessageType::try_from(b) {
                Ok(t) => [1, u8::from(t) as i64, fuzzy_code(t.super_type()), main_code(t.super_type().main_category())],
                Err(_) => [0, NONE, NONE, NONE],
            });
            row.extend_from_slice(&r);
        }
        // U7 -> TimeCodeQuarterFrame -> U7
        1 => {
            let b = a[0] as u8;
            let r = acc.gv(|| {
                let f = TimeCodeQuarterFrame::from(U7::new(b));
                let c = frame_code(f);
                [c[0], c[1], c[2], U7::from(f).get() as i64]
            });
            row.extend_from_slice(&r);
        }
        // TimeCodeQuarterFrame -> U7 -> TimeCodeQuarterFrame
        2 => {
            let r = acc.gv(|| {
                let f = frame_of([a[0], a[1], a[2]]);
                let b = U7::from(f);
                let c = frame_code(TimeCodeQuarterFrame::from(b));
                [b.get() as i64, c[0], c[1], c[2]]
            });
            row.extend_from_slice(&r);
        }
        // ControllerNumber predicates
        3 => {
            let n = ControllerNumber::new(a[0] as u8);
            let r = acc.gv(|| {
                [
                    n.can_be_part_of_14_bit_control_change_message() as i64,
                    opt(n.corresponding_14_bit_lsb_controller_number().map(|x| x.get())),
                    n.is_parameter_number_message_controller_number() as i64,
                    n.is_channel_mode_message_controller_number() as i64,
                ]
            });
            row.extend_from_slice(&r);
        }
        _ => panic!("types kind"),
    }
    row.push(acc.allocs as i64);
    row
}

pub fn controller_constants() -> Vec<(i64, i64)> {
    use controller_numbers::*;
    // (index in the MIDI 1.0 controller table as transcribed in spec/Tables.tla, value)
    let v = [
        BANK_SELECT, MODULATION_WHEEL, BREATH_CONTROLLER, FOOT_CONTROLLER, PORTAMENTO_TIME, DATA_ENTRY_MSB,
        CHANNEL_VOLUME, BALANCE, PAN, EXPRESSION_CONTROLLER, EFFECT_CONTROL_1, EFFECT_CONTROL_2,
        GENERAL_PURPOSE_CONTROLLER_1, GENERAL_PURPOSE_CONTROLLER_2, GENERAL_PURPOSE_CONTROLLER_3,
        GENERAL_PURPOSE_CONTROLLER_4,
        BANK_SELECT_LSB, MODULATION_WHEEL_LSB, BREATH_CONTROLLER_LSB, FOOT_CONTROLLER_LSB, PORTAMENTO_TIME_LSB,
        DATA_ENTRY_MSB_LSB, CHANNEL_VOLUME_LSB, BALANCE_LSB, PAN_LSB, EXPRESSION_CONTROLLER_LSB,
        EFFECT_CONTROL_1_LSB, EFFECT_CONTROL_2_LSB, GENERAL_PURPOSE_CONTROLLER_1_LSB,
        GENERAL_PURPOSE_CONTROLLER_2_LSB, GENERAL_PURPOSE_CONTROLLER_3_LSB, GENERAL_PURPOSE_CONTROLLER_4_LSB,
        DATA_INCREMENT, DATA_DECREMENT, NON_REGISTERED_PARAMETER_NUMBER_LSB, NON_REGISTERED_PARAMETER_NUMBER_MSB,
        REGISTERED_PARAMETER_NUMBER_LSB, REGISTERED_PARAMETER_NUMBER_MSB,
        ALL_SOUND_OFF, RESET_ALL_CONTROLLERS, LOCAL_CONTROL_ON_OFF, ALL_NOTES_OFF, OMNI_MODE_OFF, OMNI_MODE_ON,
        MONO_MODE_ON, POLY_MODE_ON,
        // every remaining constant of the module
        DAMPER_PEDAL_ON_OFF, PORTAMENTO_ON_OFF, SOSTENUTO_ON_OFF, SOFT_PEDAL_ON_OFF, LEGATO_FOOTSWITCH, HOLD_2,
        SOUND_CONTROLLER_1, SOUND_CONTROLLER_2, SOUND_CONTROLLER_3, SOUND_CONTROLLER_4, SOUND_CONTROLLER_5,
        SOUND_CONTROLLER_6, SOUND_CONTROLLER_7, SOUND_CONTROLLER_8, SOUND_CONTROLLER_9, SOUND_CONTROLLER_10,
        GENERAL_PURPOSE_CONTROLLER_5, GENERAL_PURPOSE_CONTROLLER_6, GENERAL_PURPOSE_CONTROLLER_7,
        GENERAL_PURPOSE_CONTROLLER_8, PORTAMENTO_CONTROL, HIGH_RESOLUTION_VELOCITY_PREFIX, EFFECTS_1_DEPTH,
        EFFECTS_2_DEPTH, EFFECTS_3_DEPTH, EFFECTS_4_DEPTH, EFFECTS_5_DEPTH,
    ];
    v.iter().enumerate().map(|(i, c)| (i as i64, c.get() as i64)).collect()
}

pub fn table_types(dir: &str, _tier: &str, _seed: u64, per: usize) -> (usize, u64) {
    let mut w = ChunkWriter::new(dir, per);
    for b in 0..256 {
        w.push(&types_row(0, &[b]));
    }
    for b in 0..128 {
        w.push(&types_row(1, &[b]));
    }
    for k in 0..7 {
        for a in 0..16 {
            w.push(&types_row(2, &[k, a, 0]));
        }
    }
    for a in 0..2 {
        for t in 0..4 {
            w.push(&types_row(2, &[7, a, t]));
        }
    }
    for n in 0..128 {
        w.push(&types_row(3, &[n]));
    }
    for (i, c) in controller_constants() {
        w.push(&[4, i, c]);
    }
    w.finish()
}

fn rows_from_file(name: &str, dir: &str, file: &str, per: usize) -> (usize, u64) {
    let mut w = ChunkWriter::new(dir, per);
    let text = std::fs::read_to_string(file).unwrap();
    for spec in text.split(';').filter(|x| !x.trim().is_empty()) {
        let a: Vec<i64> = spec.split(',').map(|x| x.trim().parse().unwrap()).collect();
        let row = match name {
            "short" => short_row(a[0] as u8, a[1] as u8, a[2] as u8),
            "structured" => structured_row([a[0], a[1], a[2], a[3]]),
            "types" => {
                if a[0] == 4 {
                    let (i, c) = controller_constants()[a[1] as usize];
                    vec![4, i, c]
                } else {
                    let n = match a[0] { 2 => 3, _ => 1 };
                    types_row(a[0], &a[1..1 + n])
                }
            }
            other => crate::pure2::row_from_inputs(other, &a),
        };
        w.push(&row);
    }
    w.finish()
}

pub fn run(args: &[String]) {
    // table <name> <dir> <tier | rows:FILE> <seed> <rows per chunk>
    crate::alloc::silence_panics();
    let name = args[0].as_str();
    crate::chunks::set_table(name);
    let dir = &args[1];
    let tier = args[2].as_str();
    let seed: u64 = args[3].parse().unwrap();
    let per: usize = args[4].parse().unwrap();
    let (chunks, rows) = if let Some(f) = tier.strip_prefix("rows:") {
        rows_from_file(name, dir, f, per)
    } else {
        match name {
            "short" => table_short(dir, tier, seed, per),
            "structured" => table_structured(dir, tier, seed, per),
            "types" => table_types(dir, tier, seed, per),
            "first" => table_first(dir, tier, seed, per),
            other => crate::pure2::table(other, dir, tier, seed, per),
        }
    };
    println!("{{\"chunks\":{chunks},\"rows\":{rows}}}");
}
