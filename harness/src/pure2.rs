//! Tables `factory` (C06) and `pnmsg` (C09); conventions as in pure.rs.
use crate::alloc::guarded;
use crate::basics::build_pn;
use crate::pure::*;
use crate::basics::{cc14_report, pn_report};
use helgoboss_midi::*;
use std::convert::TryFrom;

fn ty(b: i64) -> ShortMessageType {
    ShortMessageType::try_from(b as u8).expect("type byte")
}

fn build<F: ShortMessageFactory>(ctor: i64, a: &[i64]) -> F {
    let ch = || Channel::new(a[0] as u8);
    match ctor {
        0 => F::note_on(ch(), KeyNumber::new(a[1] as u8), U7::new(a[2] as u8)),
        1 => F::note_off(ch(), KeyNumber::new(a[1] as u8), U7::new(a[2] as u8)),
        2 => F::control_change(ch(), ControllerNumber::new(a[1] as u8), U7::new(a[2] as u8)),
        3 => F::program_change(ch(), U7::new(a[1] as u8)),
        4 => F::polyphonic_key_pressure(ch(), KeyNumber::new(a[1] as u8), U7::new(a[2] as u8)),
        5 => F::channel_pressure(ch(), U7::new(a[1] as u8)),
        6 => F::pitch_bend_change(ch(), U14::new(a[1] as u16)),
        7 => F::system_exclusive_start(),
        8 => F::time_code_quarter_frame(frame_of([a[0], a[1], a[2]])),
        9 => F::song_position_pointer(U14::new(a[0] as u16)),
        10 => F::song_select(U7::new(a[0] as u8)),
        11 => F::tune_request(),
        12 => F::system_exclusive_end(),
        13 => F::timing_clock(),
        14 => F::start(),
        15 => F::r#continue(),
        16 => F::stop(),
        17 => F::active_sensing(),
        18 => F::system_reset(),
        20 => F::channel_message(ty(a[0]), Channel::new(a[1] as u8), U7::new(a[2] as u8), U7::new(a[3] as u8)),
        21 => F::system_common_message(ty(a[0]), U7::new(a[1] as u8), U7::new(a[2] as u8)),
        22 => F::system_real_time_message(ty(a[0])),
        _ => panic!("ctor"),
    }
}

/// The same constructor calls spelled the way callers spell them - `RawShortMessage::note_on(..)` on the
/// CONCRETE type: an inherent associated function with the name of a factory function takes precedence there
/// (and only there) over the trait's.
macro_rules! build_on {
    ($name:ident, $F:ty) => {
        fn $name(ctor: i64, a: &[i64]) -> $F {
            type F = $F;

    let ch = || Channel::new(a[0] as u8);
    match ctor {
        0 => F::note_on(ch(), KeyNumber::new(a[1] as u8), U7::new(a[2] as u8)),
        1 => F::note_off(ch(), KeyNumber::new(a[1] as u8), U7::new(a[2] as u8)),
        2 => F::control_change(ch(), ControllerNumber::new(a[1] as u8), U7::new(a[2] as u8)),
        3 => F::program_change(ch(), U7::new(a[1] as u8)),
        4 => F::polyphonic_key_pressure(ch(), KeyNumber::new(a[1] as u8), U7::new(a[2] as u8)),
        5 => F::channel_pressure(ch(), U7::new(a[1] as u8)),
        6 => F::pitch_bend_change(ch(), U14::new(a[1] as u16)),
        7 => F::system_exclusive_start(),
        8 => F::time_code_quarter_frame(frame_of([a[0], a[1], a[2]])),
        9 => F::song_position_pointer(U14::new(a[0] as u16)),
        10 => F::song_select(U7::new(a[0] as u8)),
        11 => F::tune_request(),
        12 => F::system_exclusive_end(),
        13 => F::timing_clock(),
        14 => F::start(),
        15 => F::r#continue(),
        16 => F::stop(),
        17 => F::active_sensing(),
        18 => F::system_reset(),
        20 => F::channel_message(ty(a[0]), Channel::new(a[1] as u8), U7::new(a[2] as u8), U7::new(a[3] as u8)),
        21 => F::system_common_message(ty(a[0]), U7::new(a[1] as u8), U7::new(a[2] as u8)),
        22 => F::system_real_time_message(ty(a[0])),
        _ => panic!("ctor"),
    }
        }
    };
}
build_on!(build_raw_path, RawShortMessage);
build_on!(build_structured_path, StructuredShortMessage);

fn build_shorthand(ctor: i64, a: &[i64]) -> RawShortMessage {
    use helgoboss_midi::test_util as t;
    let b = |i: usize| a[i] as u8;
    match ctor {
        30 => t::note_on(b(0), b(1), b(2)),
        31 => t::note_off(b(0), b(1), b(2)),
        32 => t::control_change(b(0), b(1), b(2)),
        33 => t::program_change(b(0), b(1)),
        34 => t::polyphonic_key_pressure(b(0), b(1), b(2)),
        35 => t::channel_pressure(b(0), b(1)),
        36 => t::pitch_bend_change(b(0), a[1] as u16),
        37 => t::system_exclusive_start(),
        38 => t::time_code_quarter_frame(frame_of([a[0], a[1], a[2]])),
        39 => t::song_position_pointer(a[0] as u16),
        40 => t::song_select(b(0)),
        41 => t::tune_request(),
        42 => t::system_exclusive_end(),
        43 => t::timing_clock(),
        44 => t::start(),
        45 => t::r#continue(),
        46 => t::stop(),
        47 => t::active_sensing(),
        48 => t::system_reset(),
        49 => t::short(b(0), b(1), b(2)),
        _ => panic!("shorthand"),
    }
}

/// Row = [ctor, impl, a1, a2, a3, a4, pan, al, result...]
pub fn factory_row(ctor: i64, imp: i64, a: [i64; 4]) -> Vec<i64> {
    let mut row = vec![ctor, imp, a[0], a[1], a[2], a[3]];
    let mut acc = Acc { allocs: 0 };
    match ctor {
        0..=22 => {
            if imp == 0 || imp == 2 {
                let (m, al) = guarded(|| if imp == 0 { build_raw_path(ctor, &a) } else { build::<RawShortMessage>(ctor, &a) });
                row.extend_from_slice(&[m.is_none() as i64, al as i64]);
                if let Some(m) = m {
                    // the row holds the vector taken with method syntax on the concrete type (what the caller of
                    // a constructor writes; judged cell by cell), then whether the trait gives the same vector
                    let v = obs_raw_method(&mut acc, &m);
                    let g = obs(&mut acc, &m);
                    row.extend_from_slice(&v);
                    row.push(acc.allocs as i64);
                    row.push((v == g) as i64);
                }
            } else {
                let (m, al) = guarded(|| if imp == 1 { build_structured_path(ctor, &a) } else { build::<StructuredShortMessage>(ctor, &a) });
                row.extend_from_slice(&[m.is_none() as i64, al as i64]);
                if let Some(m) = m {
                    let v = obs_structured_method(&mut acc, &m);
                    let g = obs(&mut acc, &m);
                    row.extend_from_slice(&v);
                    row.push(acc.allocs as i64);
                    row.push((v == g) as i64);
                }
            }
        }
        30..=49 => {
            let (m, al) = guarded(|| build_shorthand(ctor, &a));
            row.extend_from_slice(&[m.is_none() as i64, al as i64]);
            if let Some(m) = m {
                let v = obs(&mut acc, &m);
                row.extend_from_slice(&v);
                row.push(acc.allocs as i64);
            }
        }
        50..=55 => {
            use helgoboss_midi::test_util as t;
            let (r, al) = guarded(|| match ctor {
                50 => t::u4(a[0] as u8).get() as i64,
                51 => t::u7(a[0] as u8).get() as i64,
                52 => t::u14(a[0] as u16).get() as i64,
                53 => t::channel(a[0] as u8).get() as i64,
                54 => t::key_number(a[0] as u8).get() as i64,
                _ => t::controller_number(a[0] as u8).get() as i64,
            });
            row.extend_from_slice(&[r.is_none() as i64, al as i64]);
            if let Some(v) = r {
                row.push(v);
            }
        }
        56 => {
            let (r, al) = guarded(|| test_util::control_change_14_bit(a[0] as u8, a[1] as u8, a[2] as u16));
            row.extend_from_slice(&[r.is_none() as i64, al as i64]);
            if let Some(m) = r {
                for x in cc14_report(&m).as_array().unwrap() {
                    row.push(x.as_i64().unwrap());
                }
            }
        }
        57..=60 => {
            let (r, al) = guarded(|| match ctor {
                57 => test_util::nrpn(a[0] as u8, a[1] as u16, a[2] as u8),
                58 => test_util::nrpn_14_bit(a[0] as u8, a[1] as u16, a[2] as u16),
                59 => test_util::rpn(a[0] as u8, a[1] as u16, a[2] as u8),
                _ => test_util::rpn_14_bit(a[0] as u8, a[1] as u16, a[2] as u16),
            });
            row.extend_from_slice(&[r.is_none() as i64, al as i64]);
            if let Some(m) = r {
                for x in pn_report(&m).as_array().unwrap() {
                    row.push(x.as_i64().unwrap());
                }
            }
        }
        _ => panic!("ctor id"),
    }
    row
}

const TYPES: [i64; 23] = [
    128, 144, 160, 176, 192, 208, 224, 240, 241, 242, 243, 244, 245, 246, 247, 248, 249, 250, 251, 252, 253, 254, 255,
];

pub fn table_factory(dir: &str, tier: &str, seed: u64, per: usize) -> (usize, u64) {
    let mut w = ChunkWriter::new(dir, per);
    let full = tier == "thorough";
    let d: Vec<i64> = if full { (0..128).collect() } else { BOUNDARY.iter().map(|&x| x as i64).collect() };
    let d14: Vec<i64> = if full {
        (0..16384).collect()
    } else {
        vec![0, 1, 127, 128, 129, 200, 255, 256, 8191, 8192, 8320, 16255, 16256, 16382, 16383]
    };
    let mut r = Lcg(seed.wrapping_mul(31337).wrapping_add(5));
    for imp in 0..4 {
        for ctor in [0, 1, 2, 4] {
            for ch in 0..16 {
                for &a in &d {
                    for &b in &d {
                        w.push(&factory_row(ctor, imp, [ch, a, b, 0]));
                    }
                }
            }
        }
        if !full {
            // every value of one argument against a few values of the other
            for ctor in [0, 1, 2, 4] {
                let ch = r.below(16) as i64;
                for a in 0..128 {
                    for &b in &[0i64, 1, 64, 127] {
                        w.push(&factory_row(ctor, imp, [ch, a, b, 0]));
                        w.push(&factory_row(ctor, imp, [ch, b, a, 0]));
                    }
                }
            }
            // every 14-bit value once (on a seeded channel)
            let ch = r.below(16) as i64;
            for v in 0..16384 {
                w.push(&factory_row(6, imp, [ch, v, 0, 0]));
                w.push(&factory_row(9, imp, [v, 0, 0, 0]));
            }
        }
        for ctor in [3, 5] {
            for ch in 0..16 {
                for a in 0..128 {
                    w.push(&factory_row(ctor, imp, [ch, a, 0, 0]));
                }
            }
        }
        for ch in 0..16 {
            for &v in &d14 {
                w.push(&factory_row(6, imp, [ch, v, 0, 0]));
            }
        }
        for k in 0..7 {
            for a in 0..16 {
                w.push(&factory_row(8, imp, [k, a, 0, 0]));
            }
        }
        for a in 0..2 {
            for t in 0..4 {
                w.push(&factory_row(8, imp, [7, a, t, 0]));
            }
        }
        for &v in &d14 {
            w.push(&factory_row(9, imp, [v, 0, 0, 0]));
        }
        for a in 0..128 {
            w.push(&factory_row(10, imp, [a, 0, 0, 0]));
        }
        for ctor in [7, 11, 12, 13, 14, 15, 16, 17, 18] {
            w.push(&factory_row(ctor, imp, [0, 0, 0, 0]));
        }
        // thorough: the generic constructors with EVERY pair of data bytes
        if full {
            for &t in TYPES.iter() {
                let chans: Vec<i64> = if t < 240 { vec![0, 9, 15, r.below(16) as i64] } else { vec![0] };
                for &ch in &chans {
                    for a in 0..128 {
                        for b in 0..128 {
                            w.push(&factory_row(20, imp, [t, ch, a, b]));
                        }
                    }
                }
                for a in 0..128 {
                    for b in 0..128 {
                        w.push(&factory_row(21, imp, [t, a, b, 0]));
                    }
                }
            }
        }
        // the three generic constructors x all 23 types
        for &t in TYPES.iter() {
            for ch in 0..16 {
                for &a in &[0i64, 1, 6, 64, 120, 127] {
                    for &b in &[0i64, 1, 127] {
                        w.push(&factory_row(20, imp, [t, ch, a, b]));
                    }
                }
            }
            for &a in &d {
                for &b in &[0i64, 1, 64, 127] {
                    w.push(&factory_row(21, imp, [t, a, b, 0]));
                }
            }
            w.push(&factory_row(22, imp, [t, 0, 0, 0]));
        }
        for _ in 0..(if full { 200000 } else { 20000 }) {
            let ctor = [0, 1, 2, 4, 6, 9, 20, 21][r.below(8) as usize];
            let a = match ctor {
                6 => [r.below(16) as i64, r.below(16384) as i64, 0, 0],
                9 => [r.below(16384) as i64, 0, 0, 0],
                20 => [TYPES[r.below(23) as usize], r.below(16) as i64, r.below(128) as i64, r.below(128) as i64],
                21 => [TYPES[r.below(23) as usize], r.below(128) as i64, r.below(128) as i64, 0],
                _ => [r.below(16) as i64, r.below(128) as i64, r.below(128) as i64, 0],
            };
            w.push(&factory_row(ctor, imp, a));
        }
    }
    // test_util shorthands with primitive arguments, including out-of-range ones
    let prim: Vec<i64> = vec![0, 1, 15, 16, 17, 64, 127, 128, 129, 200, 255];
    for ctor in [30, 31, 32, 34] {
        for &c in &prim {
            for &a in &prim {
                for &b in &prim {
                    w.push(&factory_row(ctor, 0, [c, a, b, 0]));
                }
            }
        }
    }
    for ctor in [33, 35] {
        for &c in &prim {
            for a in 0..256 {
                w.push(&factory_row(ctor, 0, [c, a, 0, 0]));
            }
        }
    }
    let prim16: Vec<i64> = vec![0, 1, 127, 128, 200, 8192, 16383, 16384, 16385, 32768, 65535];
    for &c in &prim {
        for &v in &prim16 {
            w.push(&factory_row(36, 0, [c, v, 0, 0]));
        }
    }
    for &v in &prim16 {
        w.push(&factory_row(39, 0, [v, 0, 0, 0]));
    }
    for v in 0..256 {
        w.push(&factory_row(40, 0, [v, 0, 0, 0]));
        for ctor in [50, 51, 53, 54, 55] {
            w.push(&factory_row(ctor, 0, [v, 0, 0, 0]));
        }
    }
    for v in (0..65536).step_by(if full { 1 } else { 97 }).chain(16380..16390) {
        w.push(&factory_row(52, 0, [v, 0, 0, 0]));
    }
    for k in 0..7 {
        for a in 0..16 {
            w.push(&factory_row(38, 0, [k, a, 0, 0]));
        }
    }
    for a in 0..2 {
        for t in 0..4 {
            w.push(&factory_row(38, 0, [7, a, t, 0]));
        }
    }
    for ctor in [37, 41, 42, 43, 44, 45, 46, 47, 48] {
        w.push(&factory_row(ctor, 0, [0, 0, 0, 0]));
    }
    for s in 0..256 {
        for &a in &prim {
            for &b in &[0i64, 127, 128] {
                w.push(&factory_row(49, 0, [s, a, b, 0]));
            }
        }
    }
    for &c in &prim {
        for cn in [0i64, 1, 31, 32, 33, 63, 64, 127, 128, 255] {
            for &v in &prim16 {
                w.push(&factory_row(56, 0, [c, cn, v, 0]));
            }
        }
        for &n in &prim16 {
            for &v in &prim {
                w.push(&factory_row(57, 0, [c, n, v, 0]));
                w.push(&factory_row(59, 0, [c, n, v, 0]));
            }
            for &v in &prim16 {
                w.push(&factory_row(58, 0, [c, n, v, 0]));
                w.push(&factory_row(60, 0, [c, n, v, 0]));
            }
        }
    }
    w.finish()
}

/// Row = [ctor, ch, num, val, ord, fac, pan, al, channel, number, value, is14, isreg, dt,
///        slot1(3), slot2(3), slot3(3), slot4(3), array_conversion_equals_msb_first]
/// (accessor order: channel, number, value, is_registered, is_14_bit, data_type)
pub fn pnmsg_row(ctor: i64, ch: i64, num: i64, val: i64, ord: i64, fac: i64) -> Vec<i64> {
    let mut row = vec![ctor, ch, num, val, ord, fac];
    let reg = (ctor >= 4) as i64;
    let (b14, dt) = match ctor % 4 {
        0 => (0, 0),
        1 => (1, 0),
        2 => (0, 2),
        _ => (0, 1),
    };
    let msg = [ch, num, val, reg, b14, dt];
    let (r, al) = guarded(|| {
        let m = build_pn(&msg);
        let acc = [
            m.channel().get() as i64,
            m.number().get() as i64,
            m.value().get() as i64,
            m.is_registered() as i64,
            m.is_14_bit() as i64,
            match m.data_type() {
                DataType::DataEntry => 0,
                DataType::DataIncrement => 1,
                DataType::DataDecrement => 2,
            },
        ];
        let order = if ord == 0 { DataEntryByteOrder::MsbFirst } else { DataEntryByteOrder::LsbFirst };
        let enc = |x: &(u8, U7, U7)| [x.0 as i64, x.1.get() as i64, x.2.get() as i64];
        let (slots, arr_eq) = if fac == 0 {
            let a: [Option<RawShortMessage>; 4] = m.to_short_messages(order);
            let b: [Option<RawShortMessage>; 4] = m.into();
            let c: [Option<RawShortMessage>; 4] = m.to_short_messages(DataEntryByteOrder::MsbFirst);
            (a.map(|x| x.map(|y| enc(&y.to_bytes())).unwrap_or([-1, -1, -1])), (b == c) as i64)
        } else {
            let a: [Option<StructuredShortMessage>; 4] = m.to_short_messages(order);
            let b: [Option<StructuredShortMessage>; 4] = m.into();
            let c: [Option<StructuredShortMessage>; 4] = m.to_short_messages(DataEntryByteOrder::MsbFirst);
            (a.map(|x| x.map(|y| enc(&y.to_bytes())).unwrap_or([-1, -1, -1])), (b == c) as i64)
        };
        (acc, slots, arr_eq)
    });
    row.extend_from_slice(&[r.is_none() as i64, al as i64]);
    if let Some((acc, slots, arr_eq)) = r {
        row.extend_from_slice(&acc);
        for s in slots.iter() {
            row.extend_from_slice(s);
        }
        row.push(arr_eq);
    }
    row
}

pub fn table_pnmsg(dir: &str, tier: &str, seed: u64, per: usize) -> (usize, u64) {
    let mut w = ChunkWriter::new(dir, per);
    let full = tier == "thorough";
    let b7: Vec<i64> = vec![0, 1, 63, 64, 126, 127];
    let b14: Vec<i64> = vec![0, 1, 127, 128, 129, 255, 256, 8191, 8192, 16255, 16256, 16382, 16383];
    let mut r = Lcg(seed.wrapping_mul(104729).wrapping_add(11));
    let vals = |ctor: i64, all: bool| -> Vec<i64> {
        if ctor % 4 == 1 {
            if all { (0..16384).collect() } else { b14.clone() }
        } else if all { (0..128).collect() } else { b7.clone() }
    };
    for ctor in 0..8 {
        for ord in 0..2 {
            for fac in 0..2 {
                // all numbers x boundary values (x channel sample)
                // channels with a meaning of their own (MPE zone managers 0 / 15, GM drum channel 9) and another
                let chans: Vec<i64> = if full {
                    vec![0, 9, 15, 1 + r.below(8) as i64]
                } else {
                    vec![[0i64, 9, 15][r.below(3) as usize]]
                };
                for &ch in &chans {
                    let step = if full { 1 } else { 3 };
                    for num in (r.below(step as u64) as i64..16384).step_by(step) {
                        for &v in vals(ctor, false).iter().take(if full { 13 } else { 4 }) {
                            w.push(&pnmsg_row(ctor, ch, num, v, ord, fac));
                        }
                    }
                }
                // all values x boundary numbers
                for &num in &b14 {
                    let all = vals(ctor, true);
                    let step = if full || all.len() <= 128 { 1 } else { 5 };
                    for &v in all.iter().step_by(step) {
                        w.push(&pnmsg_row(ctor, r.below(16) as i64, num, v, ord, fac));
                    }
                }
                // parameter numbers with a meaning of their own on every channel
                for ch in 0..16 {
                    for &num in &[1i64, 2, 3, 4, 5, 6, 7, 120, 129, 255, 256, 767, 768, 8192, 16256, 16382] {
                        for &v in vals(ctor, false).iter() {
                            w.push(&pnmsg_row(ctor, ch, num, v, ord, fac));
                        }
                    }
                }
                // all channels
                for ch in 0..16 {
                    for &num in &[0i64, 127, 128, 16383] {
                        for &v in vals(ctor, false).iter() {
                            w.push(&pnmsg_row(ctor, ch, num, v, ord, fac));
                        }
                    }
                }
            }
        }
    }
    // seeded random points of the full product
    for _ in 0..(if full { 1_000_000 } else { 60000 }) {
        let ctor = r.below(8) as i64;
        let v = if ctor % 4 == 1 { r.below(16384) } else { r.below(128) } as i64;
        w.push(&pnmsg_row(ctor, r.below(16) as i64, r.below(16384) as i64, v, r.below(2) as i64, r.below(2) as i64));
    }
    // the encoder is a FUNCTION of the message: the same rows again, each computed directly after a
    // neighbour of the message (one bit of one field flipped, or another constructor / byte order) was
    // encoded on the same thread
    for _ in 0..(if full { 20000 } else { 1500 }) {
        let ctor = r.below(8) as i64;
        let wide = ctor % 4 == 1;
        let (ch, num) = (r.below(16) as i64, r.below(16384) as i64);
        let v = if wide { r.below(16384) } else { r.below(128) } as i64;
        let (ord, fac) = (r.below(2) as i64, r.below(2) as i64);
        let mut neighbours: Vec<[i64; 5]> = vec![];
        for b in 0..14 {
            neighbours.push([ctor, ch, num ^ (1 << b), v, ord]);
        }
        for b in 0..(if wide { 14 } else { 7 }) {
            neighbours.push([ctor, ch, num, v ^ (1 << b), ord]);
        }
        for b in 0..4 {
            neighbours.push([ctor, ch ^ (1 << b), num, v, ord]);
        }
        neighbours.push([ctor ^ 4, ch, num, v, ord]);
        neighbours.push([ctor, ch, num, v, 1 - ord]);
        if !wide {
            for c2 in [0, 2, 3] {
                neighbours.push([(ctor & 4) | c2, ch, num, v, ord]);
            }
        }
        for nb in neighbours {
            // an unrelated message first, so that whatever the encoder may remember is not this message itself
            let _ = pnmsg_row(ctor ^ 1, (ch + 5) % 16, (num + 4321) % 16384, (v + 77) % 128, 1 - ord, 1 - fac);
            let _ = pnmsg_row(nb[0], nb[1], nb[2], nb[3], nb[4], fac);
            w.push(&pnmsg_row(ctor, ch, num, v, ord, fac));
        }
    }
    // ... and of nothing else: several threads encoding different messages at the same time
    let handles: Vec<_> = (0..4i64)
        .map(|t| {
            std::thread::spawn(move || {
                let mut rows = vec![];
                let n = if full { 60000 } else { 15000 };
                for i in 0..n {
                    let row = match t {
                        0 => pnmsg_row(5, t, 1000 + 300 * t, 12000 + t + (i % 3), 0, 0),
                        1 => pnmsg_row(3, (i % 16) as i64, 7 + (i % 5) as i64, (i % 128) as i64, (i % 2) as i64, 0),
                        2 => pnmsg_row(0, 9, 16383 - (i % 7) as i64, 127 - (i % 2) as i64, 0, (i % 2) as i64),
                        _ => pnmsg_row(1, 15, (i * 37 % 16384) as i64, (i * 101 % 16384) as i64, 1, 0),
                    };
                    if i % 16 == 0 || rows.len() < 64 {
                        rows.push(row);
                    } else {
                        // keep every row that differs from the first one of its kind in shape (cheap filter
                        // that never drops a wrong row of thread 0, whose message is fixed up to `i % 3`)
                        if t == 0 || row.len() != rows[0].len() {
                            rows.push(row);
                        }
                    }
                }
                rows
            })
        })
        .collect();
    for h in handles {
        for row in h.join().expect("encoder thread") {
            w.push(&row);
        }
    }
    w.finish()
}

/// Table `misc` (growth beyond the listed properties): derived orderings, equality and hashing of the
/// message types agree with the order of the MIDI 1.0 table; constants; TimeCodeType <-> u8.
pub fn table_misc(dir: &str, _tier: &str, seed: u64, per: usize) -> (usize, u64) {
    use std::collections::hash_map::DefaultHasher;
    use std::hash::{Hash, Hasher};
    let mut w = ChunkWriter::new(dir, per);
    let mut r = Lcg(seed.wrapping_mul(977).wrapping_add(1));
    let mut sample: Vec<[i64; 4]> = vec![];
    for v in 0..=3 {
        for &(c, a, b) in &[(0i64, 0i64, 0i64), (0, 0, 1), (0, 1, 0), (1, 0, 0), (15, 127, 127), (3, 64, 5)] {
            sample.push([v, c, a, b]);
        }
        sample.push([v, r.below(16) as i64, r.below(128) as i64, r.below(128) as i64]);
    }
    for v in 4..=5 {
        for &(c, a) in &[(0i64, 0i64), (0, 1), (1, 0), (15, 127)] {
            sample.push([v, c, a, 0]);
        }
    }
    for &(c, a) in &[(0i64, 0i64), (0, 1), (1, 0), (15, 16383), (2, 8192)] {
        sample.push([6, c, a, 0]);
    }
    for k in 0..7 {
        sample.push([8, k, 0, 0]);
        sample.push([8, k, 15, 0]);
    }
    for a in 0..2 {
        for t in 0..4 {
            sample.push([8, 7, a, t]);
        }
    }
    for &a in &[0i64, 1, 16383] {
        sample.push([9, a, 0, 0]);
    }
    for &a in &[0i64, 1, 127] {
        sample.push([10, a, 0, 0]);
    }
    for v in [7, 11, 12, 13, 14, 15, 16, 17, 18, 19, 20, 21, 22] {
        sample.push([v, 0, 0, 0]);
    }
    let h = |x: &StructuredShortMessage| {
        let mut s = DefaultHasher::new();
        x.hash(&mut s);
        s.finish()
    };
    for a in &sample {
        for b in &sample {
            let (x, y) = (structured_of(*a), structured_of(*b));
            let cmp = match x.cmp(&y) {
                std::cmp::Ordering::Less => 0,
                std::cmp::Ordering::Equal => 1,
                std::cmp::Ordering::Greater => 2,
            };
            // the same relation on the raw form (RawShortMessage derives Eq / Hash only)
            let (rx, ry): (RawShortMessage, RawShortMessage) = (x.to_other(), y.to_other());
            w.push(&[0, a[0], a[1], a[2], a[3], b[0], b[1], b[2], b[3], cmp, (x == y) as i64, (h(&x) == h(&y)) as i64,
                     (rx == ry) as i64]);
        }
    }
    for &a in TYPES.iter() {
        for &b in TYPES.iter() {
            let (x, y) = (ty(a), ty(b));
            let cmp = match x.cmp(&y) {
                std::cmp::Ordering::Less => 0,
                std::cmp::Ordering::Equal => 1,
                std::cmp::Ordering::Greater => 2,
            };
            w.push(&[1, a, b, cmp, (x == y) as i64]);
        }
    }
    w.push(&[2, ShortMessageType::MIN as i64, ShortMessageType::MAX as i64]);
    for v in 0..=255i64 {
        match TimeCodeType::try_from(v as u8) {
            Ok(t) => w.push(&[3, v, 1, u8::from(t) as i64]),
            Err(_) => w.push(&[3, v, 0, -1]),
        }
    }
    w.finish()
}

pub fn row_from_inputs(name: &str, a: &[i64]) -> Vec<i64> {
    match name {
        "factory" => factory_row(a[0], a[1], [a[2], a[3], a[4], a[5]]),
        "pnmsg" => pnmsg_row(a[0], a[1], a[2], a[3], a[4], a[5]),
        _ => panic!("unknown table {name}"),
    }
}

pub fn table(name: &str, dir: &str, tier: &str, seed: u64, per: usize) -> (usize, u64) {
    match name {
        "factory" => table_factory(dir, tier, seed, per),
        "pnmsg" => table_pnmsg(dir, tier, seed, per),
        "misc" => table_misc(dir, tier, seed, per),
        _ => panic!("unknown table {name}"),
    }
}
