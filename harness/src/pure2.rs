//! Further tables (factory, ints, pnmsg): see pure.rs for the conventions.
pub fn row_from_inputs(name: &str, _a: &[i64]) -> Vec<i64> {
    panic!("unknown table {name}")
}

pub fn table(name: &str, _dir: &str, _tier: &str, _seed: u64, _per: usize) -> (usize, u64) {
    panic!("unknown table {name}")
}
