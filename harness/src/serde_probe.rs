//! Table `serde` (C19), built only with feature `with_serde` (helgoboss-midi/serde + serde_repr).
//! Inputs are serde_json::Values fed through from_value (and serde's primitive value
//! deserializers); after a successful deserialization the panicking accessors are called.
use crate::alloc::guarded;
use crate::chunks::ChunkWriter;
use crate::natural::{diff_path, find_num, get_path, positional, self_describing, Template};
use crate::pure::{frame_code, structured_code, structured_of};
use helgoboss_midi::*;
use serde::de::value::{Error as DeError, I16Deserializer, I32Deserializer, I64Deserializer, I8Deserializer,
                       U16Deserializer, U32Deserializer, U64Deserializer, U8Deserializer};
use serde::de::IntoDeserializer;
use serde::Deserialize;
use serde_json::{from_value, json, to_value, Value};

const PANIC: i64 = -2;

fn enc(v: i128) -> (i64, i64) {
    if v > 2_000_000_000 {
        (1, 0)
    } else if v < -2_000_000_000 {
        (-1, 0)
    } else {
        (0, v as i64)
    }
}

macro_rules! int_rows {
    ($w:expr, $T:ty, $tc:expr, $ints:expr) => {
        for &n in $ints.iter() {
            let (cls, vv) = enc(n);
            // form 0: JSON integer; 1: non-integral float; 2: string; 3: integral float; 4: one-element array
            let forms: Vec<(i64, Value)> = vec![
                (0, if n >= 0 { json!(n as u64) } else { json!(n as i64) }),
                (1, json!(n as f64 + 0.5)),
                (2, json!(format!("{}", n))),
                (3, json!(n as f64)),
                (4, json!([n as i64])),
            ];
            for (form, val) in forms {
                if form != 0 && !(n % 7 == 0 || n < 3 || (n > 14 && n < 18) || (n > 125 && n < 130) || (n > 16380 && n < 16386)) {
                    continue;
                }
                let (r, _) = guarded(|| from_value::<$T>(val).map(|x| x.get() as i64));
                let (ok, res) = match r {
                    Some(Ok(x)) => (1, x),
                    Some(Err(_)) => (0, -1),
                    None => (PANIC, PANIC),
                };
                $w.push(&[0, $tc, form, cls, vv, ok, res]);
            }
        }
        // serde's primitive value deserializers (what a non-JSON format would call)
        for &n in $ints.iter() {
            let (cls, vv) = enc(n);
            macro_rules! via {
                ($D:ident, $p:ty, $code:expr) => {
                    if n >= <$p>::MIN as i128 && n <= <$p>::MAX as i128 {
                        let d: $D<DeError> = (n as $p).into_deserializer();
                        let (r, _) = guarded(|| <$T>::deserialize(d).map(|x| x.get() as i64));
                        let (ok, res) = match r {
                            Some(Ok(x)) => (1, x),
                            Some(Err(_)) => (0, -1),
                            None => (PANIC, PANIC),
                        };
                        $w.push(&[1, $tc, $code, cls, vv, ok, res]);
                    }
                };
            }
            via!(U8Deserializer, u8, 0);
            via!(I8Deserializer, i8, 1);
            via!(U16Deserializer, u16, 2);
            via!(I16Deserializer, i16, 3);
            via!(U32Deserializer, u32, 4);
            via!(I32Deserializer, i32, 5);
            via!(U64Deserializer, u64, 6);
            via!(I64Deserializer, i64, 7);
        }
        // natural representation of every valid value
        for v in 0..=(<$T>::MAX.get() as i64) {
            let x = <$T>::new(v as _);
            let (r, _) = guarded(|| from_value::<$T>(to_value(x).unwrap()).map(|y| y == x));
            let (ok, eq) = match r {
                Some(Ok(e)) => (1, e as i64),
                Some(Err(_)) => (0, 0),
                None => (PANIC, PANIC),
            };
            $w.push(&[7, $tc, v, 0, 0, 0, ok, eq]);
        }
    };
}

/// Template of a 14-bit CC message in the given form (self-describing or positional).
fn cc14_template(form: fn(&ControlChange14BitMessage) -> Value) -> Template {
    let base = form(&ControlChange14BitMessage::new(Channel::new(1), ControllerNumber::new(2), U14::new(3)));
    let fields = vec![
        ("channel".to_string(), find_num(&base, 1, "channel")),
        ("cn".to_string(), find_num(&base, 2, "msb_controller_number")),
        ("value".to_string(), find_num(&base, 3, "value")),
    ];
    Template { base, fields }
}

struct PnTemplate {
    t: Template,
    reg: [Value; 2],
    b14: [Value; 2],
    dt: [Value; 4],
}

fn pn_template(form: fn(&ParameterNumberMessage) -> Value) -> PnTemplate {
    let (c, n, v) = (Channel::new(1), U14::new(2), U7::new(3));
    let a = form(&ParameterNumberMessage::registered_7_bit(c, n, v));
    let nonreg = form(&ParameterNumberMessage::non_registered_7_bit(c, n, v));
    let wide = form(&ParameterNumberMessage::registered_14_bit(c, n, U14::new(3)));
    let inc = form(&ParameterNumberMessage::registered_increment(c, n, v));
    let dec = form(&ParameterNumberMessage::registered_decrement(c, n, v));
    let p_reg = diff_path(&a, &nonreg, "is_registered");
    let p_b14 = diff_path(&a, &wide, "is_14_bit");
    let p_dt = diff_path(&a, &inc, "data_type");
    let g = |x: &Value, p: &crate::natural::Path| get_path(x, p).unwrap().clone();
    let reg = [g(&nonreg, &p_reg), g(&a, &p_reg)];
    let b14 = [g(&a, &p_b14), g(&wide, &p_b14)];
    let dt = [g(&a, &p_dt), g(&inc, &p_dt), g(&dec, &p_dt), json!("Bogus")];
    let fields = vec![
        ("channel".to_string(), find_num(&a, 1, "channel")),
        ("number".to_string(), find_num(&a, 2, "number")),
        ("value".to_string(), find_num(&a, 3, "value")),
        ("reg".to_string(), p_reg),
        ("b14".to_string(), p_b14),
        ("dt".to_string(), p_dt),
    ];
    PnTemplate { t: Template { base: a, fields }, reg, b14, dt }
}

/// Natural (self-describing) representation of a structured message given by its code, with the
/// numeric fields patched in (so that out-of-range field values can be expressed).
fn structured_input(c: [i64; 4]) -> Value {
    let g = |x: &Value, p: &crate::natural::Path| get_path(x, p).unwrap().clone();
    match c[0] {
        0..=3 => {
            let base = self_describing(&structured_of([c[0], 1, 2, 3]));
            let t = Template { fields: vec![("a".into(), find_num(&base, 1, "channel")), ("b".into(), find_num(&base, 2, "field 2")),
                                           ("c".into(), find_num(&base, 3, "field 3"))], base };
            t.with(&[("a", json!(c[1])), ("b", json!(c[2])), ("c", json!(c[3]))])
        }
        4..=6 => {
            let base = self_describing(&structured_of([c[0], 1, 2, 0]));
            let t = Template { fields: vec![("a".into(), find_num(&base, 1, "channel")), ("b".into(), find_num(&base, 2, "field 2"))], base };
            t.with(&[("a", json!(c[1])), ("b", json!(c[2]))])
        }
        8 if c[1] < 7 => {
            let base = self_describing(&structured_of([8, c[1], 1, 0]));
            let t = Template { fields: vec![("a".into(), find_num(&base, 1, "nibble"))], base };
            t.with(&[("a", json!(c[2]))])
        }
        8 => {
            let base = self_describing(&structured_of([8, 7, 0, 0]));
            let hours = self_describing(&structured_of([8, 7, 1, 0]));
            let p_h = diff_path(&base, &hours, "hours_count_ms_bit");
            let p_t = diff_path(&base, &self_describing(&structured_of([8, 7, 0, 1])), "time_code_type");
            let tv = if (0..4).contains(&c[3]) { g(&self_describing(&structured_of([8, 7, 0, c[3]])), &p_t) } else { json!("Bogus") };
            let hv = if c[2] != 0 { g(&hours, &p_h) } else { g(&base, &p_h) };
            let t = Template { fields: vec![("h".into(), p_h), ("t".into(), p_t)], base };
            t.with(&[("h", hv), ("t", tv)])
        }
        9 | 10 => {
            let base = self_describing(&structured_of([c[0], 2, 0, 0]));
            let t = Template { fields: vec![("a".into(), find_num(&base, 2, "field"))], base };
            t.with(&[("a", json!(c[1]))])
        }
        v => self_describing(&structured_of([v, 0, 0, 0])),
    }
}

pub fn table_serde(dir: &str, _tier: &str, _seed: u64, per: usize) -> (usize, u64) {
    let mut w = ChunkWriter::new(dir, per);
    let mut ints: Vec<i128> = (0..=65535).collect();
    ints.extend_from_slice(&[-1, -2, -16, -128, -129, -32768, -32769, -65536, 65536, 65537, 65536 + 15, 65536 + 127,
                             1 << 31, (1 << 32) - 1, 1 << 32, (1 << 32) + 5, 1 << 62, (1i128 << 63) - 1, 1i128 << 63,
                             u64::MAX as i128, i64::MIN as i128]);
    int_rows!(w, U4, 0, ints);
    int_rows!(w, U7, 1, ints);
    int_rows!(w, U14, 2, ints);
    int_rows!(w, Channel, 3, ints);
    int_rows!(w, KeyNumber, 4, ints);
    int_rows!(w, ControllerNumber, 5, ints);

    // RawShortMessage: natural representation of (144, 1, 2), patched
    let raw_base = self_describing(&RawShortMessage::from_bytes((144, U7::new(1), U7::new(2))).unwrap());
    let raw_t = Template {
        fields: vec![("s".into(), find_num(&raw_base, 144, "status")), ("a".into(), find_num(&raw_base, 1, "data 1")),
                     ("b".into(), find_num(&raw_base, 2, "data 2"))],
        base: raw_base,
    };
    let ss = [0i64, 1, 2, 127, 128, 144, 176, 239, 240, 241, 247, 248, 255, 256, 300, -1];
    let ds = [0i64, 1, 127, 128, 255, 256, -1];
    for &s in &ss {
        for &a in &ds {
            for &b in &ds {
                let input = raw_t.with(&[("s", json!(s)), ("a", json!(a)), ("b", json!(b))]);
                let (r, _) = guarded(|| from_value::<RawShortMessage>(input));
                let mut row = vec![2, s, a, b];
                match r {
                    Some(Ok(m)) => {
                        let (t, _) = guarded(|| u8::from(m.r#type()) as i64);
                        let (st, _) = guarded(|| structured_code(&m.to_structured()));
                        row.extend_from_slice(&[1, m.status_byte() as i64, m.data_byte_1().get() as i64,
                                                m.data_byte_2().get() as i64, t.unwrap_or(PANIC),
                                                st.map(|x| x[0]).unwrap_or(PANIC)]);
                    }
                    Some(Err(_)) => row.push(0),
                    None => row.push(PANIC),
                }
                w.push(&row);
            }
        }
    }
    for bad in [json!([144, 1]), json!([144, 1, 2, 3]), json!({"0": 144}), json!("x"), json!(144), json!(null)] {
        let ok = from_value::<RawShortMessage>(bad).is_ok() as i64;
        w.push(&[2, -9, -9, -9, ok]);
    }

    // ControlChange14BitMessage: self-describing (3) and positional (9) natural representation, patched
    let cc14_map = cc14_template(|m| self_describing(m));
    let cc14_seq = cc14_template(|m| positional(m));
    for &c in &[0i64, 15, 16, 255, -1] {
        for &n in &[0i64, 1, 31, 32, 33, 63, 64, 127, 128, -1] {
            for &v in &[0i64, 1, 16383, 16384, 65535, -1] {
              for kind in [3i64, 9] {
                let t = if kind == 3 { &cc14_map } else { &cc14_seq };
                let val = t.with(&[("channel", json!(c)), ("cn", json!(n)), ("value", json!(v))]);
                let (r, _) = guarded(|| from_value::<ControlChange14BitMessage>(val));
                let mut row = vec![kind, c, n, v];
                match r {
                    Some(Ok(m)) => {
                        let (lsb, _) = guarded(|| m.lsb_controller_number().get() as i64);
                        let (enc, _) = guarded(|| {
                            let a: [RawShortMessage; 2] = m.to_short_messages();
                            a[1].data_byte_1().get() as i64
                        });
                        row.extend_from_slice(&[1, m.channel().get() as i64, m.msb_controller_number().get() as i64,
                                                m.value().get() as i64, lsb.unwrap_or(PANIC), enc.unwrap_or(PANIC)]);
                    }
                    Some(Err(_)) => row.push(0),
                    None => row.push(PANIC),
                }
                w.push(&row);
              }
            }
        }
    }

    // ParameterNumberMessage
    let pn_map = pn_template(|m| self_describing(m));
    let pn_seq = pn_template(|m| positional(m));
    for &c in &[0i64, 9, 15, 16] {
        for &n in &[0i64, 1, 5, 6, 7, 127, 128, 16383, 16384] {
            for &v in &[0i64, 1, 15, 16, 100, 127, 128, 640, 3000, 16383, 16384] {
                for reg in 0..2 {
                    for b14 in 0..2 {
                        for dt in 0..4 {
                          for kind in [4i64, 8] {
                            let t = if kind == 4 { &pn_map } else { &pn_seq };
                            let val = t.t.with(&[("channel", json!(c)), ("number", json!(n)), ("value", json!(v)),
                                                 ("reg", t.reg[reg as usize].clone()), ("b14", t.b14[b14 as usize].clone()),
                                                 ("dt", t.dt[dt as usize].clone())]);
                            let (r, _) = guarded(|| from_value::<ParameterNumberMessage>(val));
                            let mut row = vec![kind, c, n, v, reg, b14, dt];
                            match r {
                                Some(Ok(m)) => {
                                    let (enc, _) = guarded(|| {
                                        let a: [Option<RawShortMessage>; 4] =
                                            m.to_short_messages(DataEntryByteOrder::MsbFirst);
                                        a.iter().flatten().map(|x| x.data_byte_2().get() as i64).max().unwrap_or(0)
                                    });
                                    let rep = crate::basics::pn_report(&m);
                                    row.push(1);
                                    row.extend(rep.as_array().unwrap().iter().map(|x| x.as_i64().unwrap()));
                                    row.push(enc.unwrap_or(PANIC));
                                }
                                Some(Err(_)) => row.push(0),
                                None => row.push(PANIC),
                            }
                            w.push(&row);
                          }
                        }
                    }
                }
            }
        }
    }

    // StructuredShortMessage from its natural (externally tagged) representation
    let f7 = [0i64, 1, 127, 128, 255];
    let fc = [0i64, 15, 16];
    let f14 = [0i64, 127, 128, 16383, 16384, 65535];
    let mut codes: Vec<[i64; 4]> = vec![];
    for v in 0..=3 {
        for &c in &fc {
            for &a in &f7 {
                for &b in &f7 {
                    codes.push([v, c, a, b]);
                }
            }
        }
    }
    for v in 4..=5 {
        for &c in &fc {
            for &a in &f7 {
                codes.push([v, c, a, 0]);
            }
        }
    }
    for &c in &fc {
        for &a in &f14 {
            codes.push([6, c, a, 0]);
        }
    }
    for k in 0..7 {
        for a in [0i64, 1, 15, 16, 127] {
            codes.push([8, k, a, 0]);
        }
    }
    for a in 0..2 {
        for t in 0..5 {
            codes.push([8, 7, a, t]);
        }
    }
    for &a in &f14 {
        codes.push([9, a, 0, 0]);
    }
    for &a in &f7 {
        codes.push([10, a, 0, 0]);
    }
    for v in [7, 11, 12, 13, 14, 15, 16, 17, 18, 19, 20, 21, 22] {
        codes.push([v, 0, 0, 0]);
    }
    for c in codes {
        let (r, _) = guarded(|| from_value::<StructuredShortMessage>(structured_input(c)));
        let mut row = vec![5, c[0], c[1], c[2], c[3]];
        match r {
            Some(Ok(m)) => {
                let got = structured_code(&m);
                row.push(1);
                row.extend_from_slice(&got);
            }
            Some(Err(_)) => row.push(0),
            None => row.push(PANIC),
        }
        w.push(&row);
    }

    // ShortMessageType via serde_repr
    for b in -2i64..=300 {
        let (r, _) = guarded(|| from_value::<ShortMessageType>(json!(b)).map(|t| u8::from(t) as i64));
        let (ok, back) = match r {
            Some(Ok(x)) => (1, x),
            Some(Err(_)) => (0, -1),
            None => (PANIC, PANIC),
        };
        w.push(&[6, b, ok, back]);
    }

    // natural representation of valid composite values: serialize, deserialize, compare
    let mut rt = |tid: i64, a: [i64; 4], ok_eq: Option<Result<bool, ()>>| {
        let (ok, eq) = match ok_eq {
            Some(Ok(e)) => (1, e as i64),
            Some(Err(_)) => (0, 0),
            None => (PANIC, PANIC),
        };
        w.push(&[7, tid, a[0], a[1], a[2], a[3], ok, eq]);
    };
    for s in 128..256i64 {
        for &(a, b) in &[(0i64, 0i64), (1, 127), (127, 1), (64, 64), (120, 5)] {
            let m = RawShortMessage::from_bytes((s as u8, U7::new(a as u8), U7::new(b as u8))).unwrap();
            let (r, _) = guarded(|| from_value::<RawShortMessage>(to_value(m).unwrap()).map(|y| y == m).map_err(|_| ()));
            rt(6, [s, a, b, 0], r);
            let x = m.to_structured();
            let (r, _) = guarded(|| from_value::<StructuredShortMessage>(to_value(x).unwrap()).map(|y| y == x).map_err(|_| ()));
            rt(7, [s, a, b, 0], r);
        }
    }
    for c in 0..16i64 {
        for n in 0..32i64 {
            for &v in &[0i64, 1, 8192, 16383] {
                let m = ControlChange14BitMessage::new(Channel::new(c as u8), ControllerNumber::new(n as u8), U14::new(v as u16));
                let (r, _) = guarded(|| from_value::<ControlChange14BitMessage>(to_value(m).unwrap()).map(|y| y == m).map_err(|_| ()));
                rt(8, [c, n, v, 0], r);
            }
        }
    }
    for ctor in 0..8i64 {
        for &c in &[0i64, 9, 15] {
            for &n in &[0i64, 127, 128, 16383] {
                for &v in &[0i64, 1, 127] {
                    let reg = (ctor >= 4) as i64;
                    let (b14, dt) = match ctor % 4 { 0 => (0, 0), 1 => (1, 0), 2 => (0, 2), _ => (0, 1) };
                    let vv = if b14 == 1 { v * 129 } else { v };
                    let m = crate::basics::build_pn(&[c, n, vv, reg, b14, dt]);
                    let (r, _) = guarded(|| from_value::<ParameterNumberMessage>(to_value(m).unwrap()).map(|y| y == m).map_err(|_| ()));
                    rt(9, [ctor, c, n, vv], r);
                }
            }
        }
    }
    for k in 0..8i64 {
        for a in 0..(if k == 7 { 2 } else { 16 }) {
            for t in 0..(if k == 7 { 4 } else { 1 }) {
                let f = crate::pure::frame_of([k, a, t]);
                let (r, _) = guarded(|| from_value::<TimeCodeQuarterFrame>(to_value(f).unwrap()).map(|y| frame_code(y) == [k, a, t]).map_err(|_| ()));
                rt(11, [k, a, t, 0], r);
            }
        }
    }
    let _ = structured_of;
    w.finish()
}

pub fn run(args: &[String]) {
    crate::alloc::silence_panics();
    crate::chunks::set_table("serde");
    let (chunks, rows) = table_serde(&args[0], args[1].as_str(), args[2].parse().unwrap(), args[3].parse().unwrap());
    println!("{{\"chunks\":{chunks},\"rows\":{rows}}}");
}
