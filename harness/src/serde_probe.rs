//! Table `serde` (C19), built only with feature `with_serde` (helgoboss-midi/serde + serde_repr).
//! Inputs are serde_json::Values fed through from_value (and serde's primitive value
//! deserializers); after a successful deserialization the panicking accessors are called.
use crate::alloc::guarded;
use crate::chunks::ChunkWriter;
use crate::natural::{diff_path, find_num, get_path, self_describing, tree, Template, TreeSer};
use crate::tree_de::{from_tree, Cfg, Ident};
use crate::pure::{frame_code, structured_code, structured_of};
use helgoboss_midi::*;
use serde::de::value::{Error as DeError, I16Deserializer, I32Deserializer, I64Deserializer, I8Deserializer,
                       U16Deserializer, U32Deserializer, U64Deserializer, U8Deserializer};
use serde::de::IntoDeserializer;
use serde::de::DeserializeOwned;
use serde::{Deserialize, Serialize};
use serde_json::{from_value, json, to_value, Value};
use std::convert::TryFrom;

const PANIC: i64 = -2;

fn enc(v: i128) -> (i64, i64) {
    if v > 2_000_000_000 {
        (1, 0)
    } else if v < -2_000_000_000 {
        (-1, 0)
    } else {
        (0, v as i64)
    }
}

/// One way of presenting values to `Deserialize`: how the natural representation is obtained
/// (`ser`: None = serde_json::to_value) and which deserializer reads the tree (`de`: None =
/// serde_json::from_value, i.e. human-readable JSON).
#[derive(Clone, Copy)]
pub struct Way {
    pub code: i64,
    pub ser: Option<TreeSer>,
    pub de: Option<Cfg>,
    /// row kinds for raw / cc14 / pn / structured inputs (0 = family not run in this way)
    pub kinds: [i64; 4],
    /// the natural representation is put through this way (serializer and deserializer match)
    pub roundtrip: bool,
    /// ... and must be ACCEPTED there (row kind 7); otherwise only "if accepted then equal" is demanded
    /// (row kind 17): presenting structs as sequences is a choice of the format, and a `Deserialize`
    /// that only reads maps is within its rights to refuse
    pub complete: bool,
}

impl Way {
    fn ser<T: Serialize>(&self, v: &T) -> Value {
        match self.ser {
            None => self_describing(v),
            Some(c) => tree(v, c),
        }
    }
    fn de<T: DeserializeOwned>(&self, v: Value) -> Result<T, String> {
        match self.de {
            None => from_value::<T>(v).map_err(|e| e.to_string()),
            Some(c) => from_tree::<T>(&v, c).map_err(|e| e.to_string()),
        }
    }
}

pub fn ways() -> Vec<Way> {
    let t = |maps, human| Some(TreeSer { maps, human });
    let d = |human, narrow, ident| Some(Cfg { human, narrow, ident });
    vec![
        // JSON: soundness and completeness
        Way { code: 0, ser: None, de: None, kinds: [2, 3, 4, 5], roundtrip: true, complete: true },
        // structs as sequences, read by JSON
        Way { code: 1, ser: t(false, true), de: None, kinds: [0, 9, 8, 0], roundtrip: false, complete: false },
        // a self-describing format that is NOT human-readable
        Way { code: 2, ser: t(true, false), de: d(false, false, Ident::Str), kinds: [12, 9, 8, 15], roundtrip: true, complete: true },
        // a positional binary-like format: not human-readable, narrow integers
        Way { code: 3, ser: t(false, false), de: d(false, true, Ident::Str), kinds: [12, 9, 8, 15], roundtrip: true, complete: false },
        // identifiers by index / as bytes (soundness only)
        Way { code: 4, ser: t(true, true), de: d(true, true, Ident::Index), kinds: [12, 9, 8, 15], roundtrip: false, complete: false },
        Way { code: 5, ser: t(true, false), de: d(false, true, Ident::Bytes), kinds: [12, 9, 8, 15], roundtrip: false, complete: false },
        Way { code: 6, ser: t(false, true), de: d(true, false, Ident::Str), kinds: [12, 9, 8, 15], roundtrip: true, complete: false },
    ]
}

macro_rules! int_rows {
    ($w:expr, $T:ty, $tc:expr, $ints:expr) => {
        for &n in $ints.iter() {
            let (cls, vv) = enc(n);
            // form 0: JSON integer; 1: non-integral float; 2: string; 3: integral float; 4: one-element array
            let forms: Vec<(i64, Value)> = vec![
                (0, if n >= 0 { json!(n as u64) } else { json!(n as i64) }),
                (1, json!(n as f64 + 0.5)),
                (2, json!(format!("{}", n))),
                (3, json!(n as f64)),
                (4, json!([n as i64])),
            ];
            for (form, val) in forms {
                if form != 0 && !(n % 7 == 0 || n < 3 || (n > 14 && n < 18) || (n > 125 && n < 130) || (n > 16380 && n < 16386)) {
                    continue;
                }
                let (r, _) = guarded(|| from_value::<$T>(val).map(|x| x.get() as i64));
                let (ok, res) = match r {
                    Some(Ok(x)) => (1, x),
                    Some(Err(_)) => (0, -1),
                    None => (PANIC, PANIC),
                };
                $w.push(&[0, $tc, form, cls, vv, ok, res]);
            }
        }
        // serde's primitive value deserializers (what a non-JSON format would call)
        for &n in $ints.iter() {
            let (cls, vv) = enc(n);
            macro_rules! via {
                ($D:ident, $p:ty, $code:expr) => {
                    if n >= <$p>::MIN as i128 && n <= <$p>::MAX as i128 {
                        let d: $D<DeError> = (n as $p).into_deserializer();
                        let (r, _) = guarded(|| <$T>::deserialize(d).map(|x| x.get() as i64));
                        let (ok, res) = match r {
                            Some(Ok(x)) => (1, x),
                            Some(Err(_)) => (0, -1),
                            None => (PANIC, PANIC),
                        };
                        $w.push(&[1, $tc, $code, cls, vv, ok, res]);
                    }
                };
            }
            via!(U8Deserializer, u8, 0);
            via!(I8Deserializer, i8, 1);
            via!(U16Deserializer, u16, 2);
            via!(I16Deserializer, i16, 3);
            via!(U32Deserializer, u32, 4);
            via!(I32Deserializer, i32, 5);
            via!(U64Deserializer, u64, 6);
            via!(I64Deserializer, i64, 7);
        }
        // natural representation of every valid value
        for v in 0..=(<$T>::MAX.get() as i64) {
            let x = <$T>::new(v as _);
            let (r, _) = guarded(|| from_value::<$T>(to_value(x).unwrap()).map(|y| y == x));
            let (ok, eq) = match r {
                Some(Ok(e)) => (1, e as i64),
                Some(Err(_)) => (0, 0),
                None => (PANIC, PANIC),
            };
            $w.push(&[7, $tc, v, 0, 0, 0, ok, eq]);
        }
        // the other data formats (tree_de.rs): forms 10 + 10 * way + {0 number, 1 byte string, 2 string, 3 [n]}
        for way in ways().iter().filter(|w| w.de.is_some()) {
            for &n in $ints.iter() {
                if !(n < 300 || n % 251 == 0 || (n > 16380 && n < 16390) || n > 65530) {
                    continue;
                }
                let (cls, vv) = enc(n);
                let mut forms: Vec<(i64, Value)> = vec![
                    (0, if n >= 0 { json!(n as u64) } else { json!(n as i64) }),
                    (2, json!(format!("{}", n))),
                    (3, json!([n as i64])),
                ];
                if n >= 0 && n < 65536 {
                    forms.push((1, if n < 256 { json!({"$bytes": [n]}) } else { json!({"$bytes": [n % 256, n / 256]}) }));
                }
                for (form, val) in forms {
                    let (r, _) = guarded(|| way.de::<$T>(val).map(|x| x.get() as i64));
                    let (ok, res) = match r {
                        Some(Ok(x)) => (1, x),
                        Some(Err(_)) => (0, -1),
                        None => (PANIC, PANIC),
                    };
                    $w.push(&[0, $tc, 10 + 10 * way.code + form, cls, vv, ok, res]);
                }
            }
            if way.roundtrip {
                for v in 0..=(<$T>::MAX.get() as i64) {
                    let x = <$T>::new(v as _);
                    let rep = way.ser(&x);
                    let (r, _) = guarded(|| way.de::<$T>(rep).map(|y| y == x));
                    let (ok, eq) = match r {
                        Some(Ok(e)) => (1, e as i64),
                        Some(Err(_)) => (0, 0),
                        None => (PANIC, PANIC),
                    };
                    $w.push(&[if way.complete { 7 } else { 17 }, 100 * way.code + $tc, v, 0, 0, 0, ok, eq]);
                }
            }
        }
    };
}

/// Template of a 14-bit CC message in the given form (self-describing or positional).
fn cc14_template(way: &Way) -> Option<Template> {
    let form = |m: &ControlChange14BitMessage| way.ser(m);
    let base = form(&ControlChange14BitMessage::new(Channel::new(1), ControllerNumber::new(2), U14::new(3)));
    let fields = vec![
        ("channel".to_string(), find_num(&base, 1, "channel")?),
        ("cn".to_string(), find_num(&base, 2, "msb_controller_number")?),
        ("value".to_string(), find_num(&base, 3, "value")?),
    ];
    Some(Template { base, fields })
}

struct PnTemplate {
    t: Template,
    reg: [Value; 2],
    b14: [Value; 2],
    dt: [Value; 4],
}

fn pn_template(way: &Way) -> Option<PnTemplate> {
    let form = |m: &ParameterNumberMessage| way.ser(m);
    let (c, n, v) = (Channel::new(1), U14::new(2), U7::new(3));
    let a = form(&ParameterNumberMessage::registered_7_bit(c, n, v));
    let nonreg = form(&ParameterNumberMessage::non_registered_7_bit(c, n, v));
    let wide = form(&ParameterNumberMessage::registered_14_bit(c, n, U14::new(3)));
    let inc = form(&ParameterNumberMessage::registered_increment(c, n, v));
    let dec = form(&ParameterNumberMessage::registered_decrement(c, n, v));
    let p_reg = diff_path(&a, &nonreg, "is_registered")?;
    let p_b14 = diff_path(&a, &wide, "is_14_bit")?;
    let p_dt = diff_path(&a, &inc, "data_type")?;
    let g = |x: &Value, p: &crate::natural::Path| get_path(x, p).unwrap().clone();
    let reg = [g(&nonreg, &p_reg), g(&a, &p_reg)];
    let b14 = [g(&a, &p_b14), g(&wide, &p_b14)];
    let dt = [g(&a, &p_dt), g(&inc, &p_dt), g(&dec, &p_dt), json!("Bogus")];
    let fields = vec![
        ("channel".to_string(), find_num(&a, 1, "channel")?),
        ("number".to_string(), find_num(&a, 2, "number")?),
        ("value".to_string(), find_num(&a, 3, "value")?),
        ("reg".to_string(), p_reg),
        ("b14".to_string(), p_b14),
        ("dt".to_string(), p_dt),
    ];
    Some(PnTemplate { t: Template { base: a, fields }, reg, b14, dt })
}

/// Natural (self-describing) representation of a structured message given by its code, with the
/// numeric fields patched in (so that out-of-range field values can be expressed).
fn structured_input(way: &Way, c: [i64; 4]) -> Option<Value> {
    let self_describing = |m: &StructuredShortMessage| way.ser(m);
    let g = |x: &Value, p: &crate::natural::Path| get_path(x, p).unwrap().clone();
    Some(match c[0] {
        0..=3 => {
            let base = self_describing(&structured_of([c[0], 1, 2, 3]));
            let t = Template { fields: vec![("a".into(), find_num(&base, 1, "channel")?), ("b".into(), find_num(&base, 2, "field 2")?),
                                           ("c".into(), find_num(&base, 3, "field 3")?)], base };
            t.with(&[("a", json!(c[1])), ("b", json!(c[2])), ("c", json!(c[3]))])
        }
        4..=6 => {
            let base = self_describing(&structured_of([c[0], 1, 2, 0]));
            let t = Template { fields: vec![("a".into(), find_num(&base, 1, "channel")?), ("b".into(), find_num(&base, 2, "field 2")?)], base };
            t.with(&[("a", json!(c[1])), ("b", json!(c[2]))])
        }
        8 if c[1] < 7 => {
            let base = self_describing(&structured_of([8, c[1], 1, 0]));
            let t = Template { fields: vec![("a".into(), find_num(&base, 1, "nibble")?)], base };
            t.with(&[("a", json!(c[2]))])
        }
        8 => {
            let base = self_describing(&structured_of([8, 7, 0, 0]));
            let hours = self_describing(&structured_of([8, 7, 1, 0]));
            let p_h = diff_path(&base, &hours, "hours_count_ms_bit")?;
            let p_t = diff_path(&base, &self_describing(&structured_of([8, 7, 0, 1])), "time_code_type")?;
            let tv = if (0..4).contains(&c[3]) { g(&self_describing(&structured_of([8, 7, 0, c[3]])), &p_t) } else { json!("Bogus") };
            let hv = if c[2] != 0 { g(&hours, &p_h) } else { g(&base, &p_h) };
            let t = Template { fields: vec![("h".into(), p_h), ("t".into(), p_t)], base };
            t.with(&[("h", hv), ("t", tv)])
        }
        9 | 10 => {
            let base = self_describing(&structured_of([c[0], 2, 0, 0]));
            let t = Template { fields: vec![("a".into(), find_num(&base, 2, "field")?)], base };
            t.with(&[("a", json!(c[1]))])
        }
        v => self_describing(&structured_of([v, 0, 0, 0])),
    })
}

/// Patched natural representations of the composite types, presented in one `way`.
fn composite_rows(w: &mut ChunkWriter, way: &Way) {
    let [k_raw, k_cc14, k_pn, k_st] = way.kinds;
    if k_raw != 0 {
        // RawShortMessage: natural representation of (144, 1, 2), patched
        let raw_base = way.ser(&RawShortMessage::from_bytes((144, U7::new(1), U7::new(2))).unwrap());
        let raw_t = (|| {
            Some(Template {
                fields: vec![("s".into(), find_num(&raw_base, 144, "status")?), ("a".into(), find_num(&raw_base, 1, "data 1")?),
                             ("b".into(), find_num(&raw_base, 2, "data 2")?)],
                base: raw_base.clone(),
            })
        })();
        let ss = [0i64, 1, 2, 127, 128, 144, 176, 239, 240, 241, 247, 248, 255, 256, 300, -1];
        let ds = [0i64, 1, 127, 128, 200, 255, 256, -1];
        let one = |w: &mut ChunkWriter, kind: i64, s: i64, a: i64, b: i64, input: Value| {
            let (r, _) = guarded(|| way.de::<RawShortMessage>(input.clone()));
            let mut row = vec![kind, s, a, b];
            match r {
                Some(Ok(m)) => {
                    let (t, _) = guarded(|| u8::from(m.r#type()) as i64);
                    let (st, _) = guarded(|| structured_code(&m.to_structured()));
                    row.extend_from_slice(&[1, m.status_byte() as i64, m.data_byte_1().get() as i64,
                                            m.data_byte_2().get() as i64, t.unwrap_or(PANIC),
                                            st.map(|x| x[0]).unwrap_or(PANIC)]);
                    // is the input simply the natural representation of what came out?
                    row.push((way.ser(&m) == input) as i64);
                }
                Some(Err(_)) => row.push(0),
                None => row.push(PANIC),
            }
            w.push(&row);
        };
        // the template is trusted only if, for every VALID point of the grid, patching reproduces the natural
        // representation of the value built through the checked constructors
        let raw_t = raw_t.filter(|t| {
            let ok = ss.iter().all(|&s| ds.iter().all(|&a| ds.iter().all(|&b| {
                if !(0..256).contains(&s) || !(0..128).contains(&a) || !(0..128).contains(&b) {
                    return true;
                }
                match RawShortMessage::from_bytes((s as u8, U7::new(a as u8), U7::new(b as u8))) {
                    Ok(m) => t.with(&[("s", json!(s)), ("a", json!(a)), ("b", json!(b))]) == way.ser(&m),
                    Err(_) => true,
                }
            })));
            if !ok {
                crate::chunks::note(&format!("unlearnable representation: RawShortMessage is not field-wise in way {}", way.code));
            }
            ok
        });
        for &s in &ss {
            for &a in &ds {
                for &b in &ds {
                    if let Some(t) = &raw_t {
                        one(w, k_raw, s, a, b, t.with(&[("s", json!(s)), ("a", json!(a)), ("b", json!(b))]));
                    }
                    // the same three numbers as a byte string (formats with a bytes type)
                    if way.de.is_some() && [s, a, b].iter().all(|x| (0..256).contains(x)) {
                        one(w, 12, s, a, b, json!({"$bytes": [s, a, b]}));
                    }
                }
            }
        }
        for bad in [json!([144, 1]), json!([144, 1, 2, 3]), json!({"0": 144}), json!("x"), json!(144), json!(null),
                    json!({"$bytes": [144, 1]}), json!({"$bytes": [144, 1, 2, 3]}), json!({"$bytes": []})] {
            let (r, _) = guarded(|| way.de::<RawShortMessage>(bad).is_ok() as i64);
            w.push(&[2, -9, -9, -9, r.unwrap_or(PANIC)]);
        }
    }

    let cc14_cs = [0i64, 15, 16, 255, -1];
    let cc14_ns = [0i64, 1, 31, 32, 33, 63, 64, 127, 128, -1];
    let cc14_vs = [0i64, 1, 16383, 16384, 65535, -1];
    let cc14_t = if k_cc14 != 0 { cc14_template(way) } else { None }.filter(|t| {
        let ok = cc14_cs.iter().all(|&c| cc14_ns.iter().all(|&n| cc14_vs.iter().all(|&v| {
            if !(0..16).contains(&c) || !(0..128).contains(&n) || !(0..16384).contains(&v) {
                return true;
            }
            match guarded(|| ControlChange14BitMessage::new(Channel::new(c as u8), ControllerNumber::new(n as u8), U14::new(v as u16))).0 {
                Some(m) => t.with(&[("channel", json!(c)), ("cn", json!(n)), ("value", json!(v))]) == way.ser(&m),
                None => true,
            }
        })));
        if !ok {
            crate::chunks::note(&format!("unlearnable representation: ControlChange14BitMessage is not field-wise in way {}", way.code));
        }
        ok
    });
    if let Some(cc14_t) = cc14_t {
        for &c in &cc14_cs {
            for &n in &cc14_ns {
                for &v in &cc14_vs {
                    let val = cc14_t.with(&[("channel", json!(c)), ("cn", json!(n)), ("value", json!(v))]);
                    let (r, _) = guarded(|| way.de::<ControlChange14BitMessage>(val.clone()));
                    let mut row = vec![k_cc14, c, n, v];
                    match r {
                        Some(Ok(m)) => {
                            let (lsb, _) = guarded(|| m.lsb_controller_number().get() as i64);
                            let (enc, _) = guarded(|| {
                                let a: [RawShortMessage; 2] = m.to_short_messages();
                                a[1].data_byte_1().get() as i64
                            });
                            row.extend_from_slice(&[1, m.channel().get() as i64, m.msb_controller_number().get() as i64,
                                                    m.value().get() as i64, lsb.unwrap_or(PANIC), enc.unwrap_or(PANIC)]);
                            row.push((way.ser(&m) == val) as i64);
                        }
                        Some(Err(_)) => row.push(0),
                        None => row.push(PANIC),
                    }
                    w.push(&row);
                }
            }
        }
    }

    let pn_cs = [0i64, 9, 15, 16];
    let pn_ns = [0i64, 1, 5, 6, 7, 127, 128, 16383, 16384];
    let pn_vs = [0i64, 1, 15, 16, 100, 127, 128, 640, 3000, 16383, 16384];
    let pn_t = if k_pn != 0 { pn_template(way) } else { None }.filter(|t| {
        let mut ok = true;
        for &c in &pn_cs {
            for &n in &pn_ns {
                for &v in &pn_vs {
                    for reg in 0..2i64 {
                        for b14 in 0..2i64 {
                            for dt in 0..3i64 {
                                if !(0..16).contains(&c) || !(0..16384).contains(&n) || !(0..16384).contains(&v) {
                                    continue;
                                }
                                let msg = [c, n, v, reg, b14, dt];
                                // valid = the checked constructors build it and it reports back exactly these fields
                                if let Some(m) = guarded(|| crate::basics::build_pn(&msg)).0 {
                                    let rep: Vec<i64> = crate::basics::pn_report(&m).as_array().unwrap().iter().map(|x| x.as_i64().unwrap()).collect();
                                    if rep == msg {
                                        let val = t.t.with(&[("channel", json!(c)), ("number", json!(n)), ("value", json!(v)),
                                                             ("reg", t.reg[reg as usize].clone()), ("b14", t.b14[b14 as usize].clone()),
                                                             ("dt", t.dt[dt as usize].clone())]);
                                        ok &= val == way.ser(&m);
                                    }
                                }
                            }
                        }
                    }
                }
            }
        }
        if !ok {
            crate::chunks::note(&format!("unlearnable representation: ParameterNumberMessage is not field-wise in way {}", way.code));
        }
        ok
    });
    if let Some(t) = pn_t {
        for &c in &pn_cs {
            for &n in &pn_ns {
                for &v in &pn_vs {
                    for reg in 0..2 {
                        for b14 in 0..2 {
                            for dt in 0..4 {
                                let val = t.t.with(&[("channel", json!(c)), ("number", json!(n)), ("value", json!(v)),
                                                     ("reg", t.reg[reg as usize].clone()), ("b14", t.b14[b14 as usize].clone()),
                                                     ("dt", t.dt[dt as usize].clone())]);
                                let (r, _) = guarded(|| way.de::<ParameterNumberMessage>(val.clone()));
                                let mut row = vec![k_pn, c, n, v, reg, b14, dt];
                                match r {
                                    Some(Ok(m)) => {
                                        let (enc, _) = guarded(|| {
                                            let a: [Option<RawShortMessage>; 4] =
                                                m.to_short_messages(DataEntryByteOrder::MsbFirst);
                                            a.iter().flatten().map(|x| x.data_byte_2().get() as i64).max().unwrap_or(0)
                                        });
                                        let rep = crate::basics::pn_report(&m);
                                        row.push(1);
                                        row.extend(rep.as_array().unwrap().iter().map(|x| x.as_i64().unwrap()));
                                        row.push(enc.unwrap_or(PANIC));
                                        row.push((way.ser(&m) == val) as i64);
                                    }
                                    Some(Err(_)) => row.push(0),
                                    None => row.push(PANIC),
                                }
                                w.push(&row);
                            }
                        }
                    }
                }
            }
        }
    }

    if k_st != 0 {
        // StructuredShortMessage from its natural (externally tagged) representation
        let f7 = [0i64, 1, 127, 128, 255];
        let fc = [0i64, 15, 16];
        let f14 = [0i64, 127, 128, 16383, 16384, 65535];
        let mut codes: Vec<[i64; 4]> = vec![];
        for v in 0..=3 {
            for &c in &fc {
                for &a in &f7 {
                    for &b in &f7 {
                        codes.push([v, c, a, b]);
                    }
                }
            }
        }
        for v in 4..=5 {
            for &c in &fc {
                for &a in &f7 {
                    codes.push([v, c, a, 0]);
                }
            }
        }
        for &c in &fc {
            for &a in &f14 {
                codes.push([6, c, a, 0]);
            }
        }
        for k in 0..7 {
            for a in [0i64, 1, 15, 16, 127] {
                codes.push([8, k, a, 0]);
            }
        }
        for a in 0..2 {
            for t in 0..5 {
                codes.push([8, 7, a, t]);
            }
        }
        for &a in &f14 {
            codes.push([9, a, 0, 0]);
        }
        for &a in &f7 {
            codes.push([10, a, 0, 0]);
        }
        for v in [7, 11, 12, 13, 14, 15, 16, 17, 18, 19, 20, 21, 22] {
            codes.push([v, 0, 0, 0]);
        }
        // a variant's template is trusted only if, for every VALID code of the variant, patching reproduces the
        // natural representation of the value built through the checked constructors (all kinds of quarter
        // frame form one group)
        let mut bad_groups: Vec<i64> = vec![];
        for c in &codes {
            let built = guarded(|| structured_of(*c)).0.filter(|m| structured_code(m) == *c);
            let fine = match (built, structured_input(way, *c)) {
                (Some(m), Some(input)) => input == way.ser(&m),
                (Some(_), None) => false,
                (None, _) => true,
            };
            if !fine && !bad_groups.contains(&c[0]) {
                bad_groups.push(c[0]);
                crate::chunks::note(&format!("unlearnable representation: StructuredShortMessage variant group {} is not field-wise in way {}", c[0], way.code));
            }
        }
        for c in codes {
            if bad_groups.contains(&c[0]) {
                continue;
            }
            let input = match structured_input(way, c) {
                Some(x) => x,
                None => continue,
            };
            let (r, _) = guarded(|| way.de::<StructuredShortMessage>(input.clone()));
            let mut row = vec![k_st, c[0], c[1], c[2], c[3]];
            match r {
                Some(Ok(m)) => {
                    let got = structured_code(&m);
                    row.push(1);
                    row.extend_from_slice(&got);
                    row.push((way.ser(&m) == input) as i64);
                }
                Some(Err(_)) => row.push(0),
                None => row.push(PANIC),
            }
            w.push(&row);
        }
    }
}

/// natural representation of valid composite values: serialize, deserialize, compare
/// Blind mutation (row kinds 18 / 19): no knowledge of what a leaf means is needed to ask that WHATEVER is
/// accepted be a value the checked constructors could have built.  Natural representations of valid compound
/// messages, in this way's format, with one or two numeric leaves replaced by other numbers.  This is what
/// reaches representations that pack several fields into one number (where field-wise patching is skipped).
fn blind_rows(w: &mut ChunkWriter, way: &Way) {
    use crate::natural::{numeric_leaves, set_path};
    let repl = [0i64, 1, 2, 3, 4, 7, 8, 15, 16, 31, 32, 33, 63, 64, 65, 96, 127, 128, 129, 191, 192, 255, 256, 8191, 8192,
                16383, 16384, 32767, 65535];
    let mutants = |nat: &Value| -> Vec<Value> {
        let leaves = numeric_leaves(nat);
        let mut out = vec![];
        for (i, p) in leaves.iter().enumerate() {
            for &a in &repl {
                let mut v = nat.clone();
                set_path(&mut v, p, json!(a));
                if leaves.len() <= 6 {
                    for q in leaves.iter().skip(i + 1) {
                        for &b in &[0i64, 1, 127, 128, 255, 16383, 16384] {
                            let mut v2 = v.clone();
                            set_path(&mut v2, q, json!(b));
                            out.push(v2);
                        }
                    }
                }
                out.push(v);
            }
        }
        out
    };
    let mut seeds = vec![];
    for &c in &[0u8, 9, 15] {
        for &n in &[0u16, 6, 16383] {
            let (c, n) = (Channel::new(c), U14::new(n));
            seeds.push(ParameterNumberMessage::registered_7_bit(c, n, U7::new(127)));
            seeds.push(ParameterNumberMessage::non_registered_7_bit(c, n, U7::new(0)));
            seeds.push(ParameterNumberMessage::registered_14_bit(c, n, U14::new(16383)));
            seeds.push(ParameterNumberMessage::non_registered_14_bit(c, n, U14::new(129)));
            seeds.push(ParameterNumberMessage::registered_increment(c, n, U7::new(1)));
            seeds.push(ParameterNumberMessage::non_registered_decrement(c, n, U7::new(127)));
        }
    }
    for m in &seeds {
        for val in mutants(&way.ser(m)) {
            let (r, _) = guarded(|| way.de::<ParameterNumberMessage>(val.clone()));
            let mut row = vec![18, way.code];
            match r {
                Some(Ok(m)) => {
                    let (enc, _) = guarded(|| {
                        let a: [Option<RawShortMessage>; 4] = m.to_short_messages(DataEntryByteOrder::MsbFirst);
                        a.iter().flatten().map(|x| x.data_byte_2().get() as i64).max().unwrap_or(0)
                    });
                    row.push(1);
                    row.extend(crate::basics::pn_report(&m).as_array().unwrap().iter().map(|x| x.as_i64().unwrap()));
                    row.push(enc.unwrap_or(PANIC));
                }
                Some(Err(_)) => continue,          // rejected: nothing to judge (and nothing to store)
                None => row.push(PANIC),
            }
            w.push(&row);
        }
    }
    for &(c, n, v) in &[(0u8, 0u8, 0u16), (15, 31, 16383), (9, 6, 129)] {
        let m = ControlChange14BitMessage::new(Channel::new(c), ControllerNumber::new(n), U14::new(v));
        for val in mutants(&way.ser(&m)) {
            let (r, _) = guarded(|| way.de::<ControlChange14BitMessage>(val.clone()));
            let mut row = vec![19, way.code];
            match r {
                Some(Ok(m)) => {
                    let (lsb, _) = guarded(|| m.lsb_controller_number().get() as i64);
                    let (enc, _) = guarded(|| {
                        let a: [RawShortMessage; 2] = m.to_short_messages();
                        a[1].data_byte_1().get() as i64
                    });
                    row.extend_from_slice(&[1, m.channel().get() as i64, m.msb_controller_number().get() as i64,
                                            m.value().get() as i64, lsb.unwrap_or(PANIC), enc.unwrap_or(PANIC)]);
                }
                Some(Err(_)) => continue,
                None => row.push(PANIC),
            }
            w.push(&row);
        }
    }
}

fn roundtrip_rows(w: &mut ChunkWriter, way: &Way) {
    let off = 100 * way.code;
    let complete = way.complete;
    let mut rt = |tid: i64, a: [i64; 4], ok_eq: Option<Result<bool, ()>>| {
        let (ok, eq) = match ok_eq {
            Some(Ok(e)) => (1, e as i64),
            Some(Err(_)) => (0, 0),
            None => (PANIC, PANIC),
        };
        w.push(&[if complete { 7 } else { 17 }, off + tid, a[0], a[1], a[2], a[3], ok, eq]);
    };
    for s in 128..256i64 {
        for &(a, b) in &[(0i64, 0i64), (1, 127), (127, 1), (64, 64), (120, 5)] {
            let m = RawShortMessage::from_bytes((s as u8, U7::new(a as u8), U7::new(b as u8))).unwrap();
            let rep = way.ser(&m);
            let (r, _) = guarded(|| way.de::<RawShortMessage>(rep).map(|y| y == m).map_err(|_| ()));
            rt(6, [s, a, b, 0], r);
            let x = m.to_structured();
            let rep = way.ser(&x);
            let (r, _) = guarded(|| way.de::<StructuredShortMessage>(rep).map(|y| y == x).map_err(|_| ()));
            rt(7, [s, a, b, 0], r);
        }
    }
    for c in 0..16i64 {
        for n in 0..32i64 {
            for &v in &[0i64, 1, 8192, 16383] {
                let m = ControlChange14BitMessage::new(Channel::new(c as u8), ControllerNumber::new(n as u8), U14::new(v as u16));
                let rep = way.ser(&m);
                let (r, _) = guarded(|| way.de::<ControlChange14BitMessage>(rep).map(|y| y == m).map_err(|_| ()));
                rt(8, [c, n, v, 0], r);
            }
        }
    }
    for ctor in 0..8i64 {
        for &c in &[0i64, 9, 15] {
            for &n in &[0i64, 127, 128, 16383] {
                for &v in &[0i64, 1, 127] {
                    let reg = (ctor >= 4) as i64;
                    let (b14, dt) = match ctor % 4 { 0 => (0, 0), 1 => (1, 0), 2 => (0, 2), _ => (0, 1) };
                    let vv = if b14 == 1 { v * 129 } else { v };
                    let m = crate::basics::build_pn(&[c, n, vv, reg, b14, dt]);
                    let rep = way.ser(&m);
                    let (r, _) = guarded(|| way.de::<ParameterNumberMessage>(rep).map(|y| y == m).map_err(|_| ()));
                    rt(9, [ctor, c, n, vv], r);
                }
            }
        }
    }
    for k in 0..8i64 {
        for a in 0..(if k == 7 { 2 } else { 16 }) {
            for t in 0..(if k == 7 { 4 } else { 1 }) {
                let f = crate::pure::frame_of([k, a, t]);
                let rep = way.ser(&f);
                let (r, _) = guarded(|| way.de::<TimeCodeQuarterFrame>(rep).map(|y| frame_code(y) == [k, a, t]).map_err(|_| ()));
                rt(11, [k, a, t, 0], r);
            }
        }
    }
    for b in 128..256i64 {
        if let Ok(t) = ShortMessageType::try_from(b as u8) {
            let rep = way.ser(&t);
            let (r, _) = guarded(|| way.de::<ShortMessageType>(rep).map(|y| y == t).map_err(|_| ()));
            rt(12, [b, 0, 0, 0], r);
        }
    }
}

pub fn table_serde(dir: &str, _tier: &str, _seed: u64, per: usize) -> (usize, u64) {
    let mut w = ChunkWriter::new(dir, per);
    let mut ints: Vec<i128> = (0..=65535).collect();
    ints.extend_from_slice(&[-1, -2, -16, -128, -129, -32768, -32769, -65536, 65536, 65537, 65536 + 15, 65536 + 127,
                             1 << 31, (1 << 32) - 1, 1 << 32, (1 << 32) + 5, 1 << 62, (1i128 << 63) - 1, 1i128 << 63,
                             u64::MAX as i128, i64::MIN as i128]);
    int_rows!(w, U4, 0, ints);
    int_rows!(w, U7, 1, ints);
    int_rows!(w, U14, 2, ints);
    int_rows!(w, Channel, 3, ints);
    int_rows!(w, KeyNumber, 4, ints);
    int_rows!(w, ControllerNumber, 5, ints);

    for way in ways().iter() {
        composite_rows(&mut w, way);
    }

    // ShortMessageType via serde_repr
    for b in -2i64..=300 {
        let (r, _) = guarded(|| from_value::<ShortMessageType>(json!(b)).map(|t| u8::from(t) as i64));
        let (ok, back) = match r {
            Some(Ok(x)) => (1, x),
            Some(Err(_)) => (0, -1),
            None => (PANIC, PANIC),
        };
        w.push(&[6, b, ok, back]);
    }

    for way in ways().iter().filter(|w| w.roundtrip) {
        roundtrip_rows(&mut w, way);
        blind_rows(&mut w, way);
    }
    let _ = structured_of;
    for u in crate::natural::UNLEARNABLE.lock().unwrap().iter() {
        crate::chunks::note(&format!("unlearnable representation: {u}"));
    }
    w.finish()
}

pub fn run(args: &[String]) {
    crate::alloc::silence_panics();
    crate::chunks::set_table("serde");
    let (chunks, rows) = table_serde(&args[0], args[1].as_str(), args[2].parse().unwrap(), args[3].parse().unwrap());
    println!("{{\"chunks\":{chunks},\"rows\":{rows}}}");
}
