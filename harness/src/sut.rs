//! The systems under test (the three scanners) behind one uniform, recording interface.
//! Built in every configuration of the harness; without helgoboss-midi's `std` feature the polling
//! scanner does not exist and the other two are driven alone.
//! No oracle logic lives here: calls are made, results are projected through the public
//! accessors and written down.
#![cfg_attr(not(feature = "std"), allow(dead_code, unused_variables))]
use crate::alloc::guarded;
use core::time::Duration;
use helgoboss_midi::*;
use serde_json::{json, Map, Value};
pub use crate::basics::{cc14_report, pn_report, Foreign};

#[derive(Copy, Clone, PartialEq, Eq, Debug)]
pub enum Scanner {
    Cc14(ControlChange14BitMessageScanner),
    Pn(ParameterNumberMessageScanner),
    #[cfg(feature = "std")]
    Poll(PollingParameterNumberMessageScanner),
}

#[derive(Copy, Clone, Debug)]
pub struct Inst {
    pub sc: Scanner,
    /// the real reading of the mock clock (ms); may be astronomically large
    pub now: u64,
    /// the clock as the specification sees it (ms): every single time step is capped at
    /// `SPEC_TICK_CAP`, which exceeds every finite timeout in use - the specification only
    /// compares differences of time with timeouts, so both clocks give the same verdicts, and
    /// TLC's 32-bit integers are never exceeded
    pub snow: u64,
    /// timeout in half-milliseconds, negative = (effectively) infinite, see `duration_of`
    pub to: i64,
}

/// `to`: timeout in HALF milliseconds (so that 2.5 ms can be said); -1 = Duration::MAX;
/// -(k) for k in 2..=63 = Duration::from_secs(1 << k), "effectively infinite" for any trace.
pub const SPEC_TICK_CAP: u64 = 10_000_000;

/// Sets the mock clock of this thread (no-op in builds without the hook).
pub fn set_clock(_ms: u64) {
    #[cfg(all(helgoboss_midi_verif, feature = "std"))]
    verif_hooks::set_now(_ms);
}

/// The largest whole number of seconds that can still be added to the CURRENT reading of the clock the
/// polling scanner uses (mock or real): found by bisection through `checked_add`, so nothing is assumed
/// about how that clock represents time.
#[cfg(feature = "std")]
fn edge_secs() -> u64 {
    #[cfg(helgoboss_midi_verif)]
    use helgoboss_midi::verif_hooks::Instant;
    #[cfg(not(helgoboss_midi_verif))]
    use std::time::Instant;
    let now = Instant::now();
    let (mut lo, mut hi) = (0u64, u64::MAX);
    while lo < hi {
        let mid = lo + (hi - lo - 1) / 2 + 1;
        if now.checked_add(Duration::from_secs(mid)).is_some() {
            lo = mid;
        } else {
            hi = mid - 1;
        }
    }
    lo
}

pub fn duration_of(to: i64) -> Duration {
    // -100 - k: k seconds less than the longest timeout whose deadline is representable right now: infinite
    // for every purpose of the specification, but `now + timeout` stops being representable as time passes
    #[cfg(feature = "std")]
    if to <= -100 {
        return Duration::from_secs(edge_secs().saturating_sub((-to - 100) as u64));
    }
    if to == -1 {
        Duration::MAX
    } else if to < -1 {
        Duration::from_secs(1u64 << ((-to) as u32).min(63))
    } else {
        Duration::from_micros(to as u64 * 500)
    }
}

pub struct CallResult {
    pub out: Vec<Value>,
    pub gap: bool,
    pub allocs: u64,
    pub panicked: bool,
}

impl CallResult {
    pub fn same_as(&self, o: &CallResult) -> bool {
        self.out == o.out && self.gap == o.gap && self.allocs == o.allocs && self.panicked == o.panicked
    }
}

impl Inst {
    pub fn new(kind: &str, to: i64, via_default: bool) -> Inst {
        let sc = match kind {
            "cc14" => Scanner::Cc14(if via_default {
                Default::default()
            } else {
                ControlChange14BitMessageScanner::new()
            }),
            "pn" => Scanner::Pn(if via_default {
                Default::default()
            } else {
                ParameterNumberMessageScanner::new()
            }),
            #[cfg(feature = "std")]
            "poll" => Scanner::Poll(if via_default {
                Default::default()
            } else {
                PollingParameterNumberMessageScanner::new(duration_of(to))
            }),
            _ => panic!("unknown scanner kind {kind}"),
        };
        Inst { sc, now: 0, snow: 0, to }
    }

    /// A copy made through `Clone::clone` of the scanner type itself (not the bitwise `Copy`).
    #[allow(clippy::clone_on_copy)]
    pub fn cloned(&self) -> Inst {
        // whatever the code under test reads from the clock while cloning is this instance's time
        #[cfg(all(helgoboss_midi_verif, feature = "std"))]
        verif_hooks::set_now(self.now);
        let sc = match &self.sc {
            Scanner::Cc14(s) => Scanner::Cc14(Clone::clone(s)),
            Scanner::Pn(s) => Scanner::Pn(Clone::clone(s)),
            #[cfg(feature = "std")]
            Scanner::Poll(s) => Scanner::Poll(Clone::clone(s)),
        };
        Inst { sc, ..*self }
    }

    pub fn kind(&self) -> &'static str {
        match self.sc {
            Scanner::Cc14(_) => "cc14",
            Scanner::Pn(_) => "pn",
            #[cfg(feature = "std")]
            Scanner::Poll(_) => "poll",
        }
    }

    fn feed_generic<M: ShortMessage>(&mut self, msg: &M) -> CallResult {
        #[cfg(all(helgoboss_midi_verif, feature = "std"))]
        verif_hooks::set_now(self.now);
        match &mut self.sc {
            Scanner::Cc14(s) => {
                let (r, allocs) = guarded(|| s.feed(msg));
                match r {
                    Some(o) => CallResult {
                        out: o.iter().map(cc14_report).collect(),
                        gap: false,
                        allocs,
                        panicked: false,
                    },
                    None => CallResult { out: vec![], gap: false, allocs, panicked: true },
                }
            }
            Scanner::Pn(s) => {
                let (r, allocs) = guarded(|| s.feed(msg));
                match r {
                    Some(o) => CallResult {
                        out: o.iter().map(pn_report).collect(),
                        gap: false,
                        allocs,
                        panicked: false,
                    },
                    None => CallResult { out: vec![], gap: false, allocs, panicked: true },
                }
            }
            #[cfg(feature = "std")]
            Scanner::Poll(s) => {
                let (r, allocs) = guarded(|| s.feed(msg));
                match r {
                    Some(o) => CallResult {
                        out: o.iter().flatten().map(pn_report).collect(),
                        gap: o[0].is_none() && o[1].is_some(),
                        allocs,
                        panicked: false,
                    },
                    None => CallResult { out: vec![], gap: false, allocs, panicked: true },
                }
            }
        }
    }

    /// `imp`: which implementation of `ShortMessage` carries the bytes into `feed`.
    pub fn feed(&mut self, s: u8, d1: u8, d2: u8, imp: &str) -> CallResult {
        match imp {
            "str" => {
                // building the structured form runs code under test: a panic there is data
                let (m, allocs) = guarded(|| {
                    StructuredShortMessage::from_bytes((s, U7::new(d1), U7::new(d2)))
                        .expect("script feeds a valid status byte")
                });
                match m {
                    Some(m) => {
                        let mut r = self.feed_generic(&m);
                        r.allocs += allocs;
                        r
                    }
                    None => CallResult { out: vec![], gap: false, allocs, panicked: true },
                }
            }
            "for" => self.feed_generic(&Foreign(s, d1, d2)),
            _ => {
                let m = RawShortMessage::from_bytes((s, U7::new(d1), U7::new(d2)))
                    .expect("script feeds a valid status byte");
                self.feed_generic(&m)
            }
        }
    }

    pub fn poll(&mut self, ch: u8) -> CallResult {
        #[cfg(all(helgoboss_midi_verif, feature = "std"))]
        verif_hooks::set_now(self.now);
        match &mut self.sc {
            #[cfg(feature = "std")]
            Scanner::Poll(s) => {
                let c = Channel::new(ch);
                let (r, allocs) = guarded(|| s.poll(c));
                match r {
                    Some(o) => CallResult {
                        out: o.iter().map(pn_report).collect(),
                        gap: false,
                        allocs,
                        panicked: false,
                    },
                    None => CallResult { out: vec![], gap: false, allocs, panicked: true },
                }
            }
            _ => panic!("poll on a scanner without poll"),
        }
    }

    pub fn reset(&mut self) -> CallResult {
        #[cfg(all(helgoboss_midi_verif, feature = "std"))]
        verif_hooks::set_now(self.now);
        let (r, allocs) = match &mut self.sc {
            Scanner::Cc14(s) => guarded(|| s.reset()),
            Scanner::Pn(s) => guarded(|| s.reset()),
            #[cfg(feature = "std")]
            Scanner::Poll(s) => guarded(|| s.reset()),
        };
        CallResult { out: vec![], gap: false, allocs, panicked: r.is_none() }
    }

    /// `self == new(same timeout)` through the public PartialEq.
    pub fn eq_new(&self) -> bool {
        #[cfg(all(helgoboss_midi_verif, feature = "std"))]
        verif_hooks::set_now(self.now);
        let fresh = Inst::new(self.kind(), self.to, false);
        self.sc == fresh.sc
    }

    /// Debug rendering with mock instants replaced by saturated ages, so that two scanners that
    /// differ only in absolute time compare equal.  Completeness device only (state-map check).
    pub fn fingerprint(&self, cap: u64) -> String {
        let s = format!("{:?}", self.sc);
        // Instant(123) -> age
        let mut out = String::with_capacity(s.len());
        let mut rest = s.as_str();
        while let Some(i) = rest.find("Instant(") {
            out.push_str(&rest[..i]);
            let tail = &rest[i + 8..];
            // the mock prints nanoseconds; anything that does not look like that is kept verbatim
            let parsed = tail.find(')').and_then(|j| tail[..j].parse::<u128>().ok().map(|t| (j, t)));
            match parsed {
                Some((j, t)) => {
                    let age = self.now.saturating_sub((t / 1_000_000) as u64).min(cap);
                    out.push_str(&format!("Age({age})"));
                    rest = &tail[j + 1..];
                }
                None => {
                    out.push_str("Instant(");
                    rest = tail;
                }
            }
        }
        out.push_str(rest);
        out
    }
}

pub fn put(o: &mut Map<String, Value>, k: &str, v: Value) {
    o.insert(k.to_string(), v);
}

pub fn record_call(o: &mut Map<String, Value>, r: &CallResult) {
    put(o, "out", Value::Array(r.out.clone()));
    if r.gap {
        put(o, "gap", json!(true));
    }
    put(o, "al", json!(r.allocs));
    put(o, "pan", json!(r.panicked));
}
