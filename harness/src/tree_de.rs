//! A configurable serde data format over `serde_json::Value` trees (C19).
//!
//! `from_value` only ever shows a type what JSON would show it: human-readable, integers as
//! u64 / i64, field and variant names as strings, no byte strings.  Other formats differ in exactly
//! these points, and `Deserialize` implementations may branch on them (`is_human_readable`,
//! `visit_u8` vs `visit_u64`, `visit_bytes`, identifiers by index).  `Tree` presents the same
//! trees in those other ways; `TreeSer` (natural.rs) is the matching serializer, so that the
//! "natural representation" of a value exists for every mode.
//!
//! A byte string is written `{"$bytes": [..]}` in the tree.
use serde::de::{self, DeserializeSeed, Deserializer, EnumAccess, IntoDeserializer, MapAccess, SeqAccess, VariantAccess, Visitor};
use serde_json::Value;

#[derive(Clone, Copy, PartialEq, Debug)]
pub enum Ident {
    Str,
    Bytes,
    Index,
}

#[derive(Clone, Copy, Debug)]
pub struct Cfg {
    pub human: bool,
    /// integers are presented with the narrowest visit_* that holds them (u8, u16, u32, u64 / i8 ..)
    pub narrow: bool,
    /// how struct field names and enum variant names are presented
    pub ident: Ident,
}

#[derive(Debug)]
pub struct TErr(pub String);
impl std::fmt::Display for TErr {
    fn fmt(&self, f: &mut std::fmt::Formatter) -> std::fmt::Result {
        write!(f, "{}", self.0)
    }
}
impl std::error::Error for TErr {}
impl de::Error for TErr {
    fn custom<T: std::fmt::Display>(msg: T) -> Self {
        TErr(msg.to_string())
    }
}

pub struct Tree<'a> {
    pub v: &'a Value,
    pub cfg: Cfg,
}

pub fn from_tree<'a, T: de::Deserialize<'a>>(v: &'a Value, cfg: Cfg) -> Result<T, TErr> {
    T::deserialize(Tree { v, cfg })
}

fn bytes_of(v: &Value) -> Option<Vec<u8>> {
    let o = v.as_object()?;
    if o.len() != 1 {
        return None;
    }
    let a = o.get("$bytes")?.as_array()?;
    a.iter().map(|x| x.as_u64().filter(|n| *n < 256).map(|n| n as u8)).collect()
}

impl<'a> Tree<'a> {
    fn number<'de, V: Visitor<'de>>(&self, n: &serde_json::Number, visitor: V) -> Result<V::Value, TErr> {
        if let Some(u) = n.as_u64() {
            if self.cfg.narrow {
                if u <= u8::MAX as u64 {
                    return visitor.visit_u8(u as u8);
                } else if u <= u16::MAX as u64 {
                    return visitor.visit_u16(u as u16);
                } else if u <= u32::MAX as u64 {
                    return visitor.visit_u32(u as u32);
                }
            }
            visitor.visit_u64(u)
        } else if let Some(i) = n.as_i64() {
            if self.cfg.narrow {
                if i >= i8::MIN as i64 {
                    return visitor.visit_i8(i as i8);
                } else if i >= i16::MIN as i64 {
                    return visitor.visit_i16(i as i16);
                } else if i >= i32::MIN as i64 {
                    return visitor.visit_i32(i as i32);
                }
            }
            visitor.visit_i64(i)
        } else {
            visitor.visit_f64(n.as_f64().unwrap_or(0.0))
        }
    }
}

/// An identifier (field or variant name), presented as configured.
struct IdentDe<'a> {
    name: &'a str,
    index: Option<usize>,
    cfg: Cfg,
}

impl<'de, 'a> Deserializer<'de> for IdentDe<'a> {
    type Error = TErr;
    fn deserialize_any<V: Visitor<'de>>(self, visitor: V) -> Result<V::Value, TErr> {
        match (self.cfg.ident, self.index) {
            (Ident::Index, Some(i)) => visitor.visit_u64(i as u64),
            (Ident::Bytes, _) => visitor.visit_bytes(self.name.as_bytes()),
            _ => visitor.visit_str(self.name),
        }
    }
    fn is_human_readable(&self) -> bool {
        self.cfg.human
    }
    serde::forward_to_deserialize_any! {
        bool i8 i16 i32 i64 i128 u8 u16 u32 u64 u128 f32 f64 char str string bytes byte_buf option unit
        unit_struct newtype_struct seq tuple tuple_struct map struct enum identifier ignored_any
    }
}

struct Seq<'a> {
    items: std::slice::Iter<'a, Value>,
    cfg: Cfg,
}

impl<'de, 'a> SeqAccess<'de> for Seq<'a> {
    type Error = TErr;
    fn next_element_seed<T: DeserializeSeed<'de>>(&mut self, seed: T) -> Result<Option<T::Value>, TErr> {
        match self.items.next() {
            Some(v) => seed.deserialize(Tree { v, cfg: self.cfg }).map(Some),
            None => Ok(None),
        }
    }
    fn size_hint(&self) -> Option<usize> {
        Some(self.items.len())
    }
}

struct Map<'a> {
    items: serde_json::map::Iter<'a>,
    pending: Option<&'a Value>,
    fields: &'static [&'static str],
    cfg: Cfg,
}

impl<'de, 'a> MapAccess<'de> for Map<'a> {
    type Error = TErr;
    fn next_key_seed<K: DeserializeSeed<'de>>(&mut self, seed: K) -> Result<Option<K::Value>, TErr> {
        match self.items.next() {
            Some((k, v)) => {
                self.pending = Some(v);
                let index = self.fields.iter().position(|f| f == k);
                seed.deserialize(IdentDe { name: k, index, cfg: self.cfg }).map(Some)
            }
            None => Ok(None),
        }
    }
    fn next_value_seed<T: DeserializeSeed<'de>>(&mut self, seed: T) -> Result<T::Value, TErr> {
        let v = self.pending.take().ok_or_else(|| TErr("value without key".into()))?;
        seed.deserialize(Tree { v, cfg: self.cfg })
    }
}

struct Enum<'a> {
    name: &'a str,
    index: Option<usize>,
    content: Option<&'a Value>,
    cfg: Cfg,
}

impl<'de, 'a> EnumAccess<'de> for Enum<'a> {
    type Error = TErr;
    type Variant = Variant<'a>;
    fn variant_seed<V: DeserializeSeed<'de>>(self, seed: V) -> Result<(V::Value, Variant<'a>), TErr> {
        let id = seed.deserialize(IdentDe { name: self.name, index: self.index, cfg: self.cfg })?;
        Ok((id, Variant { content: self.content, cfg: self.cfg }))
    }
}

struct Variant<'a> {
    content: Option<&'a Value>,
    cfg: Cfg,
}

impl<'de, 'a> VariantAccess<'de> for Variant<'a> {
    type Error = TErr;
    fn unit_variant(self) -> Result<(), TErr> {
        match self.content {
            None | Some(Value::Null) => Ok(()),
            Some(_) => Err(TErr("unit variant with content".into())),
        }
    }
    fn newtype_variant_seed<T: DeserializeSeed<'de>>(self, seed: T) -> Result<T::Value, TErr> {
        match self.content {
            Some(v) => seed.deserialize(Tree { v, cfg: self.cfg }),
            None => Err(TErr("newtype variant without content".into())),
        }
    }
    fn tuple_variant<V: Visitor<'de>>(self, _len: usize, visitor: V) -> Result<V::Value, TErr> {
        match self.content {
            Some(Value::Array(a)) => visitor.visit_seq(Seq { items: a.iter(), cfg: self.cfg }),
            _ => Err(TErr("tuple variant needs a sequence".into())),
        }
    }
    fn struct_variant<V: Visitor<'de>>(self, fields: &'static [&'static str], visitor: V) -> Result<V::Value, TErr> {
        match self.content {
            Some(Value::Array(a)) => visitor.visit_seq(Seq { items: a.iter(), cfg: self.cfg }),
            Some(Value::Object(o)) => visitor.visit_map(Map { items: o.iter(), pending: None, fields, cfg: self.cfg }),
            _ => Err(TErr("struct variant needs a map or a sequence".into())),
        }
    }
}

impl<'de, 'a> Deserializer<'de> for Tree<'a> {
    type Error = TErr;

    fn is_human_readable(&self) -> bool {
        self.cfg.human
    }

    fn deserialize_any<V: Visitor<'de>>(self, visitor: V) -> Result<V::Value, TErr> {
        if let Some(b) = bytes_of(self.v) {
            return visitor.visit_bytes(&b);
        }
        match self.v {
            Value::Null => visitor.visit_unit(),
            Value::Bool(b) => visitor.visit_bool(*b),
            Value::Number(n) => self.number(n, visitor),
            Value::String(s) => visitor.visit_str(s),
            Value::Array(a) => visitor.visit_seq(Seq { items: a.iter(), cfg: self.cfg }),
            Value::Object(o) => visitor.visit_map(Map { items: o.iter(), pending: None, fields: &[], cfg: self.cfg }),
        }
    }

    fn deserialize_option<V: Visitor<'de>>(self, visitor: V) -> Result<V::Value, TErr> {
        match self.v {
            Value::Null => visitor.visit_none(),
            _ => visitor.visit_some(self),
        }
    }

    fn deserialize_newtype_struct<V: Visitor<'de>>(self, _name: &'static str, visitor: V) -> Result<V::Value, TErr> {
        visitor.visit_newtype_struct(self)
    }

    fn deserialize_byte_buf<V: Visitor<'de>>(self, visitor: V) -> Result<V::Value, TErr> {
        match bytes_of(self.v) {
            Some(b) => visitor.visit_byte_buf(b),
            None => self.deserialize_any(visitor),
        }
    }

    fn deserialize_struct<V: Visitor<'de>>(self, _name: &'static str, fields: &'static [&'static str], visitor: V) -> Result<V::Value, TErr> {
        match self.v {
            Value::Array(a) => visitor.visit_seq(Seq { items: a.iter(), cfg: self.cfg }),
            Value::Object(o) if bytes_of(self.v).is_none() => {
                visitor.visit_map(Map { items: o.iter(), pending: None, fields, cfg: self.cfg })
            }
            _ => self.deserialize_any(visitor),
        }
    }

    fn deserialize_enum<V: Visitor<'de>>(self, _name: &'static str, variants: &'static [&'static str], visitor: V) -> Result<V::Value, TErr> {
        match self.v {
            Value::String(s) => visitor.visit_enum(Enum { name: s, index: variants.iter().position(|x| x == s), content: None, cfg: self.cfg }),
            Value::Object(o) if o.len() == 1 && bytes_of(self.v).is_none() => {
                let (k, v) = o.iter().next().unwrap();
                visitor.visit_enum(Enum { name: k, index: variants.iter().position(|x| x == k), content: Some(v), cfg: self.cfg })
            }
            // enums that are not externally tagged in the tree (e.g. serde_repr numbers)
            Value::Number(n) => {
                let u = n.as_u64().unwrap_or(u64::MAX);
                if u <= u32::MAX as u64 {
                    visitor.visit_enum((u as u32).into_deserializer())
                } else {
                    Err(TErr("enum from a number that is not a u32".into()))
                }
            }
            _ => Err(TErr("enum needs a string or a single-key map".into())),
        }
    }

    serde::forward_to_deserialize_any! {
        bool i8 i16 i32 i64 i128 u8 u16 u32 u64 u128 f32 f64 char str string bytes unit unit_struct
        seq tuple tuple_struct map identifier ignored_any
    }
}
