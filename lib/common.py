"""Shared plumbing of the /verif checks: building the harness, running TLC, parsing what TLC
printed, writing evidence, matching known findings.

Exit codes of a check: 0 = property held on everything explored, 1 = VIOLATION (printed with a
replay file), 2 = tool error / time-out / failed canary / vacuity gate."""
import json
import os
import re
import shutil
import subprocess
import sys
import time

VERIF = os.path.dirname(os.path.dirname(os.path.abspath(__file__)))
REPO = os.environ.get("VERIF_REPO", "/repo")
SPEC = os.path.join(VERIF, "spec")
HARNESS = os.path.join(VERIF, "harness")
# Mutation experiments only (never used by the registered commands): a scratch copy of the
# repository plus scratch output directories, so that experiments can run next to development.
SCRATCH = os.environ.get("VERIF_SCRATCH")
EVIDENCE_DIR = os.environ.get("VERIF_EVIDENCE_DIR", os.path.join(VERIF, "evidence"))
REPLAY_DIR = os.environ.get("VERIF_REPLAY_DIR", os.path.join(VERIF, "replays"))
WORK_ROOT = os.path.join(SCRATCH, "work") if SCRATCH else os.path.join(VERIF, "work")
NCPU = os.cpu_count() or 4


class ToolError(Exception):
    pass


class ConfigUnavailable(ToolError):
    """The crate under test does not BUILD in a non-default feature configuration (e.g. a change that uses
    `format!` breaks `--no-default-features`).  That is a build break, not a verdict about any of the listed
    properties: the runs of that configuration are skipped with a note and the default configuration goes on,
    so that a tool error does not hide what the other runs would report."""


def log(*a):
    print("[check]", *a, file=sys.stderr, flush=True)


def sh(cmd, env=None, cwd=None, timeout=None, check=True):
    e = dict(os.environ)
    if env:
        e.update(env)
    t0 = time.time()
    try:
        p = subprocess.run(cmd, cwd=cwd, env=e, stdout=subprocess.PIPE, stderr=subprocess.STDOUT,
                           timeout=timeout, text=True, errors="replace")
    except subprocess.TimeoutExpired:
        raise ToolError("timeout after %ss: %s" % (timeout, " ".join(cmd)[:200]))
    if check and p.returncode != 0:
        raise ToolError("command failed (%d): %s\n%s" % (p.returncode, " ".join(cmd)[:300], p.stdout[-3000:]))
    return p.returncode, p.stdout, time.time() - t0


# ----------------------------------------------------------------------------- workdir

class Work:
    def __init__(self, name):
        self.dir = os.path.join(WORK_ROOT, "%s-%d" % (name, os.getpid()))
        shutil.rmtree(self.dir, ignore_errors=True)
        os.makedirs(self.dir)
        self.n = 0

    def path(self, name):
        return os.path.join(self.dir, name)

    def fresh(self, stem, ext):
        self.n += 1
        return os.path.join(self.dir, "%s%d.%s" % (stem, self.n, ext))

    def cleanup(self):
        shutil.rmtree(self.dir, ignore_errors=True)


# ----------------------------------------------------------------------------- harness

_built = {}


def build_harness(config="std"):
    """Rebuilds the harness (and therefore /repo's current working tree) for one of the three
    configurations and returns the path of the binary."""
    if config in _built:
        return _built[config]
    feats = {"std": [], "nostd": ["--no-default-features"],
             "serde": ["--features", "with_serde"], "nohook": []}[config]
    hdir = HARNESS
    if REPO != "/repo":
        if not SCRATCH:
            raise ToolError("VERIF_REPO needs VERIF_SCRATCH")
        hdir = os.path.join(SCRATCH, "harness")
        if not os.path.exists(hdir):
            shutil.copytree(HARNESS, hdir, ignore=shutil.ignore_patterns("target"))
            ct = open(os.path.join(hdir, "Cargo.toml")).read().replace('path = "/repo"', 'path = "%s"' % REPO)
            open(os.path.join(hdir, "Cargo.toml"), "w").write(ct)
    tdir = os.path.join(hdir, "target", config)
    cmd = ["cargo", "build", "--offline", "--quiet", "--target-dir", tdir] + feats
    env = {"CARGO_NET_OFFLINE": "true"}
    if config == "nohook":
        # the production configuration: guard OFF, the polling scanner uses std::time::Instant
        env["RUSTFLAGS"] = "--check-cfg cfg(helgoboss_midi_verif)"
    cov = os.environ.get("VERIF_COVERAGE")
    if cov:
        # audit mode (tools/coverage.sh, not a registered check): source-based coverage of /repo/src
        # reached by the conformance runs; needs llvm-tools, which only the nightly toolchain has
        tdir = os.path.join(hdir, "target", "cov-" + config)
        cmd = ["cargo", "+nightly", "build", "--offline", "--quiet", "--target-dir", tdir] + feats
        env["RUSTFLAGS"] = ("--check-cfg cfg(helgoboss_midi_verif) -C instrument-coverage"
                            + ("" if config == "nohook" else " --cfg helgoboss_midi_verif"))
        os.makedirs(cov, exist_ok=True)
        os.environ["LLVM_PROFILE_FILE"] = os.path.join(cov, config + "-%p-%8m.profraw")
        open(os.path.join(cov, "binaries.txt"), "a").write(os.path.join(tdir, "debug", "hm-harness") + "\n")
    rc, out, dt = sh(cmd, cwd=hdir, env=env, timeout=900, check=False)
    if rc != 0:
        if config == "nostd" and "std" in _built and ("helgoboss-midi" in out or "helgoboss_midi" in out):
            raise ConfigUnavailable("the crate under test does not build in configuration `%s`:\n%s" % (config, out[-1500:]))
        raise ToolError("harness build failed (%s):\n%s" % (config, out[-4000:]))
    b = os.path.join(tdir, "debug", "hm-harness")
    _built[config] = b
    log("harness[%s] built in %.1fs" % (config, dt))
    return b


def harness(config, args, timeout=3600):
    b = build_harness(config)
    rc, out, dt = sh([b] + args, timeout=timeout, check=False)
    if rc != 0:
        raise ToolError("harness %s failed rc=%d\n%s" % (args[:2], rc, out[-3000:]))
    return out, dt


def exec_script(script, trace, config="std"):
    out, dt = harness(config, ["exec", script, trace])
    return json.loads(out.strip().splitlines()[-1])["events"]


# ----------------------------------------------------------------------------- TLC

_TLC_NOISE = re.compile(r"^(Picked up|TLC2 |Running |Parsing |Semantic |Starting|Computing|Finished comp|Linting|Warning: Please|\(Use the|Implied-temporal|Checking temporal|Finished checking temporal|Progress\()")


class TlcResult:
    def __init__(self, out, wall):
        self.out = out
        self.wall = wall
        self.generated = 0
        self.distinct = 0
        self.depth = 0
        self.errors = []
        self.tuples = []   # parsed PrintT tuples (list of python lists)
        self.coverage = {}
        self.ok = False
        self._parse()

    def _joined_lines(self):
        """TLC wraps printed values longer than ~80 characters over several lines: join them."""
        buf = None
        for line in self.out.splitlines():
            if buf is not None:
                buf += " " + line.strip()
                if line.rstrip().endswith(">>"):
                    yield buf
                    buf = None
                elif len(buf) > 100000:
                    buf = None
                continue
            st = line.lstrip()
            if st.startswith("<<") and not line.rstrip().endswith(">>") and st[2:].lstrip().startswith('"'):
                buf = "<<" + st[2:].lstrip()
                continue
            yield line

    def _parse(self):
        for line in self._joined_lines():
            m = re.match(r"^(\d+) states generated, (\d+) distinct states found", line)
            if m:
                self.generated = int(m.group(1))
                self.distinct = int(m.group(2))
            m = re.match(r"^The depth of the complete state graph search is (\d+)", line)
            if m:
                self.depth = int(m.group(1))
            if line.startswith("Error:") or "TLC threw" in line or "*** Errors" in line:
                self.errors.append(line)
            if line.startswith("<<\""):
                t = parse_tla_tuple(line)
                if t is not None:
                    self.tuples.append(t)
            m = re.match(r"^<(\w+) line \d+, col \d+ to line \d+, col \d+ of module (\w+)( \([\d ]+\))?>: (\d+):(\d+)", line)
            if m:
                k = m.group(1)
                d, t = int(m.group(4)), int(m.group(5))
                old = self.coverage.get(k, [0, 0])
                self.coverage[k] = [old[0] + d, old[1] + t]
            if "Model checking completed. No error has been found." in line:
                self.ok = True
            if "generated states: " in line and "Simulation" in line:
                self.ok = True

    def of(self, tag):
        return [t for t in self.tuples if t and t[0] == tag]


def parse_tla_tuple(line):
    """Parses a one-line TLC rendering of a tuple of strings / integers: <<"A", 1, "x">>."""
    line = line.strip()
    if not (line.startswith("<<") and line.endswith(">>")):
        return None
    body = line[2:-2]
    try:
        return json.loads("[" + body + "]")
    except Exception:
        return None


def spec_files():
    fs = []
    for d in (SPEC, os.path.join(SPEC, "mc")):
        for f in sorted(os.listdir(d)):
            if f.endswith(".tla"):
                fs.append(os.path.join(d, f))
    return fs


def tlc(work, module, cfg_text, env=None, workers=1, extra=None, timeout=1800, xmx="6g", deque=False,
        tag=None):
    """Runs TLC on spec/<module>.tla with the given configuration text inside a scratch dir."""
    d = work.fresh("tlc_" + (tag or module) + "_", "d")
    os.makedirs(d)
    for f in spec_files():
        shutil.copy(f, d)
    with open(os.path.join(d, module + ".cfg"), "w") as f:
        f.write(cfg_text)
    jtmp = os.path.join(d, "jtmp")
    os.makedirs(jtmp, exist_ok=True)
    jopts = "-Xss1g -Xmx%s -Djava.io.tmpdir=%s" % (xmx, jtmp)
    if deque:
        jopts += " -Dtlc2.tool.queue.IStateQueue=StateDeque"
    e = {"JAVA_TOOL_OPTIONS": jopts}
    if env:
        e.update(env)
    cmd = ["timeout", str(timeout), "tlc", "-workers", str(workers), "-metadir", os.path.join(d, "meta"),
           "-cleanup", "-noGenerateSpecTE", "-config", module + ".cfg"] + (extra or []) + [module + ".tla"]
    rc, out, dt = sh(cmd, cwd=d, env=e, timeout=timeout + 30, check=False)
    res = TlcResult(out, dt)
    res.rc = rc
    res.dir = d
    if rc == 124:
        raise ToolError("TLC timed out after %ss on %s" % (timeout, module))
    return res


def tlc_text(res, n=60):
    lines = [l for l in res.out.splitlines() if not _TLC_NOISE.match(l)]
    return "\n".join(lines[-n:])


def validate_trace(work, trace, history=False, timeout=1800):
    """Trace validation: TraceWorld.tla consumes the recorded trace.  Returns TlcResult; the
    caller looks at res.of('VIOL'), res.of('DRIFT'), res.of('TOOLERR'), res.of('DONE')."""
    cfg = "SPECIFICATION Spec\nCHECK_DEADLOCK FALSE\n"
    env = {"TRACE": trace}
    if history:
        env["HISTORY"] = "1"
    res = tlc(work, "TraceWorld", cfg, env=env, workers=1, timeout=timeout, deque=True, tag="trace")
    done = res.of("DONE")
    if not done or res.errors:
        raise ToolError("trace validation did not consume the trace %s:\n%s" % (trace, tlc_text(res)))
    res.stats = json.loads(done[0][2])
    res.events = done[0][1]
    return res


# ----------------------------------------------------------------------------- evidence / findings

def load_known():
    p = os.path.join(VERIF, "known_findings.json")
    if not os.path.exists(p):
        return []
    return json.load(open(p)).get("findings", [])


def write_evidence(prop, tier, seed, level, coverage, wall, violations, assumptions):
    os.makedirs(EVIDENCE_DIR, exist_ok=True)
    ev = {"property_id": prop, "tier": tier, "seed": seed, "level": level, "coverage": coverage,
          "assumptions": assumptions, "wall_s": round(wall, 2), "violations": violations}
    with open(os.path.join(EVIDENCE_DIR, prop + ".json"), "w") as f:
        json.dump(ev, f, indent=1, sort_keys=True)
        f.write("\n")


def read_ndjson(path, limit=None):
    out = []
    with open(path) as f:
        for i, line in enumerate(f):
            if limit is not None and i >= limit:
                break
            line = line.strip()
            if line:
                out.append(json.loads(line))
    return out


def write_ndjson(path, rows):
    with open(path, "w") as f:
        for r in rows:
            f.write(json.dumps(r, separators=(",", ":")))
            f.write("\n")
