"""Script generators: seeded random drivers over the full alphabet, twin-run constructions and
sweeps over specification states.  Generators only choose INPUTS (and, for twin runs, which
experiment is being made); every expectation is computed and checked by the TLA+ side."""
import random

BOUND = [0, 1, 2, 5, 6, 63, 64, 126, 127]
PN_CNS = [6, 38, 96, 97, 98, 99, 100, 101]
OTHER_CH_STATUS = [128, 144, 160, 192, 208, 224]


def rval(rng):
    return rng.choice(BOUND) if rng.random() < 0.5 else rng.randrange(128)


EXTREME = [127, 127, 127, 126, 120, 119, 100, 64, 10, 8, 7, 1, 0, 0]


def extreme_values(rng, kind, n_events, to=5, first_id=60):
    """Histories that stay on the contributing controllers of one or two channels with data bytes at the
    top and bottom of the range: carries, clamps and wrap-arounds of 7/14-bit arithmetic on values
    (value MSB 127 with LSB 127, increments on top of it, numbers 16383 / 0) show here or nowhere."""
    out = []
    left = n_events
    while left > 0:
        out.append({"op": "new", "id": first_id, "k": kind, "to": to if kind == "poll" else 0})
        chans = rng.sample(range(16), rng.choice([1, 2]))
        for _ in range(min(left, 400)):
            c = rng.choice(chans)
            r = rng.random()
            if kind == "cc14":
                n = rng.choice([0, 1, 31])
                m = [176 + c, n if r < 0.45 else n + 32, rng.choice(EXTREME)]
            else:
                cn = rng.choice([6, 6, 38, 38, 96, 97, 96, 97]) if r < 0.8 else rng.choice([98, 99, 100, 101])
                m = [176 + c, cn, rng.choice(EXTREME)]
            out.append({"op": "feed", "id": first_id, "m": m, "f": impl(rng)})
            if kind == "poll" and rng.random() < 0.25:
                out.append({"op": "tick", "id": first_id, "dt": rng.choice([0, 1, to, to + 1])})
                out.append({"op": "poll", "id": first_id, "ch": c})
        left -= 400
    return out


class Traffic:
    """Random short-message traffic for one scanner kind."""

    def __init__(self, rng, kind, chans):
        self.rng = rng
        self.kind = kind
        self.chans = chans
        self.last_msb = {}

    def cn(self, c):
        rng = self.rng
        r = rng.random()
        if self.kind == "cc14":
            if r < 0.42:
                n = rng.choice([0, 1, 2, 30, 31]) if rng.random() < 0.6 else rng.randrange(32)
                self.last_msb[c] = n
                return n
            if r < 0.84:
                if c in self.last_msb and rng.random() < 0.6:
                    return self.last_msb[c] + 32
                return rng.choice([32, 33, 34, 62, 63]) if rng.random() < 0.6 else 32 + rng.randrange(32)
            return rng.choice([64, 65, 95, 96, 127]) if rng.random() < 0.5 else 64 + rng.randrange(64)
        else:
            if r < 0.30:
                return rng.choice([98, 99, 100, 101])
            if r < 0.55:
                return 6
            if r < 0.70:
                return 38
            if r < 0.82:
                return rng.choice([96, 97])
            return rng.choice([5, 7, 37, 39, 95, 102, 0, 32, 64, 70, 120, 121, 127]) if rng.random() < 0.7 else rng.randrange(128)

    def msg(self):
        rng = self.rng
        c = rng.choice(self.chans)
        r = rng.random()
        if r < 0.80:
            return [176 + c, self.cn(c), rval(rng)]
        contributing = PN_CNS if self.kind != "cc14" else [0, 1, 31, 32, 33, 63]
        d1 = rng.choice(contributing) if rng.random() < 0.6 else rng.randrange(128)
        if r < 0.93:
            return [rng.choice(OTHER_CH_STATUS) + c, d1, rval(rng)]
        return [240 + rng.randrange(16), d1, rval(rng)]


def impl(rng):
    r = rng.random()
    return "raw" if r < 0.6 else ("str" if r < 0.8 else "for")


def pick_chans(rng):
    k = rng.choice([1, 2, 3, 16])
    return rng.sample(range(16), k)


def random_plain(rng, kind, n_events, seg=1500, first_id=1, bursts=True):
    """Plain random history for the cc14 / pn scanners: feeds and resets, one instance."""
    out = []
    left = n_events
    iid = first_id
    while left > 0:
        out.append({"op": "new", "id": iid, "k": kind, "to": 0,
                    "via": "default" if rng.random() < 0.3 else "new"})
        tr = Traffic(rng, kind, pick_chans(rng))
        for _ in range(min(seg, left)):
            r = rng.random()
            if r < 0.006:
                out.append({"op": "reset", "id": iid})
                tr.last_msb = {}
            elif r < 0.0075 and bursts:
                out.extend(burst(rng, iid, tr, kind))
            else:
                out.append({"op": "feed", "id": iid, "m": tr.msg(), "f": impl(rng)})
        left -= seg
    return out


def burst(rng, iid, tr, kind):
    """The same operation repeated around 256 times: wrapping 8-bit counters, lazily applied resets
    and 'every n-th call' logic only show after that many steps."""
    n = rng.choice([255, 256, 257, 511, 512])
    what = rng.choice(["reset", "feed", "feed-other"] + (["poll"] if kind == "poll" else []))
    if what == "reset":
        return [{"op": "reset", "id": iid}] * n
    if what == "poll":
        return [{"op": "poll", "id": iid, "ch": rng.choice(tr.chans)}] * n
    if what == "feed":
        m = tr.msg()
        return [{"op": "feed", "id": iid, "m": m}] * n
    # resets interleaved with traffic on ONE other channel: the remaining channels stay untouched
    c = rng.choice(tr.chans)
    m = [176 + (c + 1) % 16, 7, 1]
    out = []
    for _ in range(n):
        out.append({"op": "reset", "id": iid})
        out.append({"op": "feed", "id": iid, "m": m})
    return out


TIMEOUTS = [0, 1, 5, -1, 1000, 2500]


def tick_choices(to):
    if to <= 0:
        return [0, 1, 1, 2, 7, 999, 1000, 60001]
    return [0, 1, max(to - 1, 0), to, to + 1, 10 * to, to // 2, 2 * to + 1, 999, 1000, 1001, 1000 + to // 2, 60000 + to]


def random_poll(rng, n_events, seg=1500, first_id=1, timeouts=TIMEOUTS, bursts=True):
    """Random history for the polling scanner: feeds, polls, time steps, resets."""
    out = []
    left = n_events
    iid = first_id
    while left > 0:
        to = rng.choice(timeouts)
        via_default = (to == 0 and rng.random() < 0.3)
        cmd = {"op": "new", "id": iid, "k": "poll", "to": to, "via": "default" if via_default else "new"}
        r = rng.random()
        if to < -1 or (to < 0 and r < 0.5):
            cmd["to"] = -1
            cmd["toh"] = -rng.choice([40, 50, 61, 62, 63])      # Duration::from_secs(1 << k): effectively infinite
        elif to == 1 and r < 0.5:
            cmd["toh"] = rng.choice([1, 3, 5])                    # 0.5, 1.5, 2.5 ms: not a whole number of ms
            to = 3                                                # ticks chosen around it
        out.append(cmd)
        chans = pick_chans(rng)
        tr = Traffic(rng, "poll", chans)
        for _ in range(min(seg, left)):
            r = rng.random()
            if r < 0.62:
                out.append({"op": "feed", "id": iid, "m": tr.msg(), "f": impl(rng)})
            elif r < 0.80:
                out.append({"op": "poll", "id": iid, "ch": rng.choice(chans)})
            elif r < 0.994:
                out.append({"op": "tick", "id": iid, "dt": rng.choice(tick_choices(to))})
            elif r < 0.995 and bursts:
                out.extend(burst(rng, iid, tr, "poll"))
            else:
                out.append({"op": "reset", "id": iid})
        left -= seg
    return out


# ----------------------------------------------------------------------------- round trips

def rand_cc14_msg(rng):
    v = rng.choice([0, 1, 127, 128, 129, 8191, 8192, 16256, 16382, 16383]) if rng.random() < 0.5 else rng.randrange(16384)
    return [rng.randrange(16), rng.randrange(32), v]


# parameter numbers with a meaning of their own (RPN 0-6, null function, byte boundaries)
SPECIAL_NUMBERS = [0, 1, 2, 3, 4, 5, 6, 7, 120, 127, 128, 129, 255, 256, 767, 768, 8192, 16256, 16382, 16383]


def rand_pn_msg(rng, kinds=("7", "14", "inc", "dec")):
    k = rng.choice(kinds)
    num = rng.choice(SPECIAL_NUMBERS) if rng.random() < 0.4 else rng.randrange(16384)
    reg = rng.randrange(2)
    c = rng.randrange(16)
    if k == "14":
        v = rng.choice([0, 1, 127, 128, 129, 8192, 16256, 16383]) if rng.random() < 0.5 else rng.randrange(16384)
        return [c, num, v, reg, 1, 0]
    v = rval(rng)
    return [c, num, v, reg, 0, {"7": 0, "inc": 1, "dec": 2}[k]]


def roundtrip_cc14(rng, n_groups, first_id=1):
    """C07: random prior traffic, then the real encoding of a random message is fed."""
    out = [{"op": "new", "id": first_id, "k": "cc14", "to": 0}]
    tr = Traffic(rng, "cc14", list(range(16)))
    for g in range(n_groups):
        if g % 400 == 399:
            out.append({"op": "new", "id": first_id, "k": "cc14", "to": 0})
        for _ in range(rng.randrange(6)):
            if rng.random() < 0.03:
                out.append({"op": "reset", "id": first_id})
            else:
                out.append({"op": "feed", "id": first_id, "m": tr.msg(), "f": impl(rng)})
        out.append({"op": "enc14", "id": first_id, "msg": rand_cc14_msg(rng),
                    "fac": rng.choice(["raw", "str"]), "f": impl(rng)})
    return out


def value_bytes(msg):
    """Value part of the LSB-first encoding, as the documented running forms repeat it."""
    c = msg[0]
    if msg[5] == 1:
        return [[176 + c, 96, msg[2] % 128]]
    if msg[5] == 2:
        return [[176 + c, 97, msg[2] % 128]]
    if msg[4] == 0:
        return [[176 + c, 6, msg[2]]]
    return [[176 + c, 38, msg[2] % 128], [176 + c, 6, msg[2] // 128]]


def roundtrip_pn(rng, n_groups, first_id=1):
    """C10: random prior traffic, then real encodings (LSB first) and running forms."""
    out = [{"op": "new", "id": first_id, "k": "pn", "to": 0}]
    tr = Traffic(rng, "pn", list(range(16)))
    for g in range(n_groups):
        if g % 400 == 399:
            out.append({"op": "new", "id": first_id, "k": "pn", "to": 0})
        for _ in range(rng.randrange(7)):
            if rng.random() < 0.03:
                out.append({"op": "reset", "id": first_id})
            else:
                out.append({"op": "feed", "id": first_id, "m": tr.msg(), "f": impl(rng)})
        msg = rand_pn_msg(rng)
        out.append({"op": "encpn", "id": first_id, "msg": msg, "ord": "lsb",
                    "fac": rng.choice(["raw", "str"]), "f": impl(rng)})
        # running form after this selection: same channel, number and kind
        if rng.random() < 0.7:
            for _ in range(rng.randrange(1, 5)):
                if msg[4] == 1:
                    m2 = [msg[0], msg[1], rng.randrange(16384), msg[3], 1, 0]
                else:
                    m2 = [msg[0], msg[1], rval(rng), msg[3], 0, rng.randrange(3)]
                vb = value_bytes(m2)
                for i, b in enumerate(vb):
                    out.append({"op": "feed", "id": first_id, "m": b, "f": impl(rng),
                                "grp": {"k": "run", "i": i + 1, "n": len(vb), "msg": m2}})
                    # traffic on OTHER channels may be interleaved anywhere
                    if rng.random() < 0.2:
                        oc = (msg[0] + 1 + rng.randrange(15)) % 16
                        out.append({"op": "feed", "id": first_id,
                                    "m": [176 + oc, rng.choice(PN_CNS), rval(rng)], "f": "raw"})
    return out


def roundtrip_poll(rng, n_groups, first_id=1, timeouts=(0, 1, 5)):
    """C12 ('consequently'): random prior traffic, encoding in either order, wait, poll."""
    out = []
    to = None
    tr = None
    for g in range(n_groups):
        if g % 300 == 0:
            to = rng.choice(timeouts)
            out.append({"op": "new", "id": first_id, "k": "poll", "to": to})
            tr = Traffic(rng, "poll", list(range(16)))
        for _ in range(rng.randrange(7)):
            r = rng.random()
            if r < 0.7:
                out.append({"op": "feed", "id": first_id, "m": tr.msg(), "f": impl(rng)})
            elif r < 0.85:
                out.append({"op": "tick", "id": first_id, "dt": rng.choice(tick_choices(to))})
            elif r < 0.97:
                out.append({"op": "poll", "id": first_id, "ch": rng.randrange(16)})
            else:
                out.append({"op": "reset", "id": first_id})
        msg = rand_pn_msg(rng)
        ord_ = rng.choice(["msb", "lsb"])
        nbytes = 4 if msg[4] == 1 else 3
        out.append({"op": "encpn", "id": first_id, "msg": msg, "ord": ord_, "gk": "rtp", "more": 1,
                    "fac": rng.choice(["raw", "str"]), "f": impl(rng)})
        out.append({"op": "tick", "id": first_id, "dt": to + rng.choice([0, 0, 1, 3])})
        out.append({"op": "poll", "id": first_id, "ch": msg[0],
                    "grp": {"k": "rtp", "i": nbytes + 1, "n": nbytes + 1, "msg": msg, "ord": ord_}})
    return out


# ----------------------------------------------------------------------------- twin runs

def twin_isolation(rng, kind, n_events, chans=None, to=0, base_id=100):
    """C15: the interleaved stream on one scanner (id base) and each channel's projection on a
    scanner of its own (id base+1+c).  Ticks go to every instance (shared time)."""
    chans = chans or list(range(16))
    out = [{"op": "new", "id": base_id, "k": kind, "to": to}]
    for c in chans:
        out.append({"op": "new", "id": base_id + 1 + c, "k": kind, "to": to})
    tr = Traffic(rng, kind, chans)
    for _ in range(n_events):
        r = rng.random()
        if kind == "poll" and r < 0.15:
            c = rng.choice(chans)
            out.append({"op": "poll", "id": base_id, "ch": c})
            out.append({"op": "poll", "id": base_id + 1 + c, "ch": c, "tw": 1, "twp": "C15"})
        elif kind == "poll" and r < 0.30:
            out.append({"op": "tick", "id": -1, "dt": rng.choice(tick_choices(to))})
        else:
            m = tr.msg()
            f = impl(rng)
            out.append({"op": "feed", "id": base_id, "m": m, "f": f})
            if m[0] < 240:
                out.append({"op": "feed", "id": base_id + 1 + (m[0] % 16), "m": m, "f": f,
                            "tw": 1, "twp": "C15"})
    return out


def twin_transparency(rng, kind, n_events, to=0, base_id=200):
    """C16: scanner A gets the whole stream, scanner B the stream with every non-contributing
    message removed; what is reported for the rest must be the same."""
    out = [{"op": "new", "id": base_id, "k": kind, "to": to},
           {"op": "new", "id": base_id + 1, "k": kind, "to": to}]
    tr = Traffic(rng, kind, pick_chans(rng))
    for _ in range(n_events):
        r = rng.random()
        if kind == "poll" and r < 0.12:
            c = rng.choice(tr.chans)
            out.append({"op": "poll", "id": base_id, "ch": c})
            out.append({"op": "poll", "id": base_id + 1, "ch": c, "tw": 1, "twp": "C16"})
        elif kind == "poll" and r < 0.24:
            out.append({"op": "tick", "id": -1, "dt": rng.choice(tick_choices(to))})
        else:
            m = tr.msg()
            f = impl(rng)
            out.append({"op": "feed", "id": base_id, "m": m, "f": f})
            is_cc = (m[0] // 16 == 11)
            contributes = is_cc and (m[1] <= 63 if kind == "cc14" else m[1] in PN_CNS)
            if contributes:
                out.append({"op": "feed", "id": base_id + 1, "m": m, "f": f, "tw": 1, "twp": "C16"})
    return out


def twin_reset(rng, kind, n_runs, to=0, base_id=300, prefix=8, suffix=14):
    """C17: after any prefix, reset() vs. a new scanner: same reports for the same suffix.
    Also copy semantics: a copy evolves identically and independently."""
    out = []
    for _ in range(n_runs):
        a, b, c, d = base_id, base_id + 1, base_id + 2, base_id + 3
        chans = pick_chans(rng)
        tr = Traffic(rng, kind, chans)
        out.append({"op": "new", "id": a, "k": kind, "to": to})
        now = 0

        def ops(ids, n, twp):
            nonlocal now
            for _ in range(n):
                r = rng.random()
                if kind == "poll" and r < 0.15:
                    ch = rng.choice(chans)
                    for j, i in enumerate(ids):
                        e = {"op": "poll", "id": i, "ch": ch}
                        if j > 0:
                            e.update({"tw": j, "twp": twp})
                        out.append(e)
                elif kind == "poll" and r < 0.30:
                    dt = rng.choice(tick_choices(to))
                    now += dt
                    out.append({"op": "tick", "id": -1, "dt": dt})
                else:
                    m = tr.msg()
                    f = impl(rng)
                    for j, i in enumerate(ids):
                        e = {"op": "feed", "id": i, "m": m, "f": f}
                        if j > 0:
                            e.update({"tw": j, "twp": twp})
                        out.append(e)

        ops([a], rng.randrange(prefix + 1), "C17")
        if rng.random() < 0.5:
            out.append({"op": "reset", "id": a})
            out.append({"op": "new", "id": b, "k": kind, "to": to, "now": now})
            out.append({"op": "eq", "id": a, "b": b, "xe": True, "xp": "C17"})
            ops([a, b], rng.randrange(2, suffix + 1), "C17")
        else:
            out.append({"op": "copy", "id": a, "to2": c, "via": rng.choice(["copy", "clone"])})
            out.append({"op": "copy", "id": a, "to2": d, "via": rng.choice(["copy", "clone"])})
            ops([c], rng.randrange(1, suffix + 1), "C17")      # only the copy moves
            out.append({"op": "eq", "id": a, "b": d, "xe": True, "xp": "C17"})
            ops([a, d], rng.randrange(2, suffix + 1), "C17")   # original and untouched copy agree
    return out


def twin_early_polls(rng, n_events, to, base_id=400):
    """C13: scanner B skips every poll that is early (input-derived bookkeeping, re-checked by
    the specification); all other events are shared and must report the same."""
    a, b = base_id, base_id + 1
    out = [{"op": "new", "id": a, "k": "poll", "to": to}, {"op": "new", "id": b, "k": "poll", "to": to}]
    chans = pick_chans(rng)
    tr = Traffic(rng, "poll", chans)
    now = 0
    t6 = {}
    t38 = {}
    for _ in range(n_events):
        r = rng.random()
        if r < 0.25:
            c = rng.choice(chans)
            early = to < 0 or ((c not in t6 or now - t6[c] < to) and (c not in t38 or now - t38[c] < to))
            if early:
                out.append({"op": "poll", "id": a, "ch": c, "early": True})
            else:
                out.append({"op": "poll", "id": a, "ch": c})
                out.append({"op": "poll", "id": b, "ch": c, "tw": 1, "twp": "C13"})
        elif r < 0.45:
            dt = rng.choice([0, 1, 1, 2] + tick_choices(to))
            now += dt
            out.append({"op": "tick", "id": -1, "dt": dt})
        else:
            m = tr.msg()
            f = impl(rng)
            if m[0] // 16 == 11:
                c = m[0] % 16
                if m[1] == 6:
                    t6[c] = now
                if m[1] == 38:
                    t38[c] = now
            out.append({"op": "feed", "id": a, "m": m, "f": f})
            out.append({"op": "feed", "id": b, "m": m, "f": f, "tw": 1, "twp": "C13"})
    return out


def twin_time(rng, n_events, to, base_id=500):
    """C13: same feeds, no polls, different passage of time: feed must report the same."""
    a, b = base_id, base_id + 1
    out = [{"op": "new", "id": a, "k": "poll", "to": to}, {"op": "new", "id": b, "k": "poll", "to": to}]
    tr = Traffic(rng, "poll", pick_chans(rng))
    for _ in range(n_events):
        if rng.random() < 0.3:
            out.append({"op": "tick", "id": a, "dt": rng.choice(tick_choices(to))})
            out.append({"op": "tick", "id": b, "dt": rng.choice(tick_choices(to))})
        else:
            m = tr.msg()
            f = impl(rng)
            out.append({"op": "feed", "id": a, "m": m, "f": f})
            out.append({"op": "feed", "id": b, "m": m, "f": f, "tw": 1, "twp": "C13"})
    return out


# ----------------------------------------------------------------------------- systematic value sweeps

def sweep_cc14_values(rng, step=1, first_id=1):
    """Every (high, low) byte pair of the 14-bit value through the real encoder and a real scanner,
    on a seeded (channel, controller): catches value-specific slips that random traffic would need
    luck to hit."""
    ch, cn = rng.randrange(16), rng.randrange(32)
    out = [{"op": "new", "id": first_id, "k": "cc14", "to": 0}]
    for v in range(rng.randrange(step), 16384, step):
        out.append({"op": "enc14", "id": first_id, "msg": [ch, cn, v], "fac": "raw"})
    return out


def sweep_pn_values(rng, kind, step=1, first_id=1, to=0, sweeps=True):
    """Every parameter number (with a seeded value) and every 14-bit value (with a seeded number)
    through the real encoder and a real scanner of the given kind (pn: LSB first; poll: both orders,
    followed by wait + poll)."""
    out = [{"op": "new", "id": first_id, "k": kind, "to": to}]
    ch = rng.randrange(16)

    def emit(msg):
        if kind == "pn":
            out.append({"op": "encpn", "id": first_id, "msg": msg, "ord": "lsb", "fac": "raw"})
        else:
            ord_ = rng.choice(["msb", "lsb"])
            n = 4 if msg[4] == 1 else 3
            out.append({"op": "encpn", "id": first_id, "msg": msg, "ord": ord_, "gk": "rtp", "more": 1, "fac": "raw"})
            if to > 0:
                # a poll before the timeout: must return nothing and change nothing, whatever was fed
                if to > 1 and rng.random() < 0.5:
                    out.append({"op": "tick", "id": first_id, "dt": to - 1})
                    out.append({"op": "poll", "id": first_id, "ch": msg[0], "early": True})
                    out.append({"op": "tick", "id": first_id, "dt": 1})
                else:
                    out.append({"op": "poll", "id": first_id, "ch": msg[0], "early": True})
                    out.append({"op": "tick", "id": first_id, "dt": to})
            else:
                out.append({"op": "tick", "id": first_id, "dt": to})
            out.append({"op": "poll", "id": first_id, "ch": msg[0],
                        "grp": {"k": "rtp", "i": n + 1, "n": n + 1, "msg": msg, "ord": ord_}})

    # every special parameter number x registered / non-registered x every message form
    for num in SPECIAL_NUMBERS:
        for reg in (0, 1):
          for c2 in (0, 15, 1 + rng.randrange(14)):       # zone manager channels of MPE and one other
            for form in range(5):
                if form < 2:
                    emit([c2, num, rng.choice([0, 127, 128, 5418, 16383, rng.randrange(16384)]), reg, 1, 0])
                else:
                    emit([c2, num, rng.choice([0, 42, 127, rng.randrange(128)]), reg, 0, form - 2])
    if not sweeps:
        return out
    for num in range(rng.randrange(step), 16384, step):
        for reg in ((0, 1) if step == 1 else (rng.randrange(2),)):      # full sweeps cover both kinds
            if rng.random() < 0.5:
                emit([ch, num, rng.randrange(16384), reg, 1, 0])
            else:
                emit([ch, num, rng.randrange(128), reg, 0, rng.randrange(3)])
    num = rng.randrange(16384)
    for v in range(rng.randrange(step), 16384, step):
        emit([ch, num, v, rng.randrange(2), 1, 0])
    for v in range(128):
        for dt in range(3):
            emit([ch, num, v, rng.randrange(2), 0, dt])
    return out


# semantically loaded messages: things a device-aware implementation might special-case
def loaded_messages(kind, ch):
    out = []
    for n in (120, 121, 122, 123, 124, 125, 126, 127, 0, 32, 64):          # channel mode, bank select, sustain
        out.append([[176 + ch, n, v] for v in (0,)][0])
        out.append([176 + ch, n, 127])
    out += [[192 + ch, 0, 0], [224 + ch, 0, 64], [144 + ch, 60, 0], [254, 0, 0], [255, 0, 0], [250, 0, 0], [252, 0, 0]]
    return out


def loaded_sequences(kind, ch):
    """Complete (N)RPN / 14-bit CC messages with a meaning of their own, as lists of short messages."""
    seqs = []
    for num in (0, 1, 2, 5, 6, 16383):
        for reg in (1, 0):
            x = [176 + ch, 101 if reg else 99, num // 128]
            y = [176 + ch, 100 if reg else 98, num % 128]
            for v in (0, 1, 2, 15, 16, 127):
                seqs.append([x, y, [176 + ch, 6, v]])
            seqs.append([x, y, [176 + ch, 6, 1], [176 + ch, 38, 0]])
            seqs.append([x, y, [176 + ch, 96, 1]])
    for cn in (0, 1, 6, 7, 10):
        seqs.append([[176 + ch, cn, 3], [176 + ch, cn + 32, 5]])
    return seqs


def interference_battery(rng, kind, to, per_pair, base_id=100):
    """C15: for every ordered pair (a, b) of the 16 channels: b holds partial progress, a sends a
    semantically loaded message or sequence, b completes.  Interleaved scanner vs per-channel scanners."""
    out = []
    for a in range(16):
        for b in range(16):
            if a == b:
                continue
            cat = [[m] for m in loaded_messages(kind, a)] + loaded_sequences(kind, a)
            for seq in rng.sample(cat, min(per_pair, len(cat))):
                ids = {a: base_id + 1 + a, b: base_id + 1 + b}
                out.append({"op": "new", "id": base_id, "k": kind, "to": to})
                out.append({"op": "new", "id": ids[a], "k": kind, "to": to})
                out.append({"op": "new", "id": ids[b], "k": kind, "to": to})

                def feed(m):
                    out.append({"op": "feed", "id": base_id, "m": m})
                    if m[0] < 240:
                        out.append({"op": "feed", "id": ids[m[0] % 16], "m": m, "tw": 1, "twp": "C15"})

                if kind == "cc14":
                    pre = [[176 + b, 7, 9]]
                    post = [[176 + b, 39, 11], [176 + b, 39, 12]]
                else:
                    pre = [[176 + b, 99, 18], [176 + b, 98, 52]] + ([[176 + b, 6, 42]] if rng.random() < 0.5 else [])
                    post = [[176 + b, 6, 43], [176 + b, 38, 44], [176 + b, 96, 1]]
                for m in pre:
                    feed(m)
                for m in seq:
                    feed(m)
                if kind == "poll":
                    out.append({"op": "tick", "id": -1, "dt": rng.choice([0, to, to + 1, 400, 1000])})
                for m in post:
                    feed(m)
                if kind == "poll":
                    out.append({"op": "tick", "id": -1, "dt": to + 1})
                    for c in (a, b):
                        out.append({"op": "poll", "id": base_id, "ch": c})
                        out.append({"op": "poll", "id": ids[c], "ch": c, "tw": 1, "twp": "C15"})
    return out


def reset_after_selection(rng, kind, to, step, base_id=700):
    """C17: reset() after states that differ in the concrete VALUES held (which the abstract
    alphabet of the edge replay does not distinguish): every (controller, value) MSB for the 14-bit
    CC scanner, every parameter number (step) for the (N)RPN scanners, on channels with a meaning of
    their own and a random one; then == new and a twin suffix."""
    out = []
    a, b = base_id, base_id + 1
    chans = [0, 9, 15, 1 + rng.randrange(8)]

    def after(ch, now):
        out.append({"op": "reset", "id": a})
        out.append({"op": "new", "id": b, "k": kind, "to": to, "now": now})
        out.append({"op": "eq", "id": a, "b": b, "xe": True, "xp": "C17"})
        post = [[176 + ch, 33, 5], [176 + ch, 32, 7]] if kind == "cc14" else [[176 + ch, 6, 42], [176 + ch, 96, 1]]
        for m in post:
            out.append({"op": "feed", "id": a, "m": m})
            out.append({"op": "feed", "id": b, "m": m, "tw": 1, "twp": "C17"})
        if kind == "poll":
            out.append({"op": "tick", "id": -1, "dt": to + 1})
            out.append({"op": "poll", "id": a, "ch": ch})
            out.append({"op": "poll", "id": b, "ch": ch, "tw": 1, "twp": "C17"})

    for ch in chans:
        if kind == "cc14":
            for cn in range(32):
                for v in range(rng.randrange(step), 128, step):
                    out.append({"op": "new", "id": a, "k": kind, "to": to})
                    out.append({"op": "feed", "id": a, "m": [176 + ch, cn, v]})
                    after(ch, 0)
        else:
            nums = sorted(set(SPECIAL_NUMBERS + list(range(rng.randrange(step * 8), 16384, step * 8))))
            for num in nums:
                for reg in (1, 0):
                    # special numbers: every kind of progress; swept numbers: one seeded kind
                    variants = (0, 1, 2, 3) if num in SPECIAL_NUMBERS else (rng.randrange(4),)
                    for var in variants:
                        out.append({"op": "new", "id": a, "k": kind, "to": to})
                        x = [176 + ch, 101 if reg else 99, num // 128]
                        y = [176 + ch, 100 if reg else 98, num % 128]
                        for m in ([x, y] if rng.random() < 0.5 else [y, x]):
                            out.append({"op": "feed", "id": a, "m": m})
                        if var == 1:
                            out.append({"op": "feed", "id": a, "m": [176 + ch, 6, rval(rng)]})
                        elif var == 2:
                            out.append({"op": "feed", "id": a, "m": [176 + ch, 38, rval(rng)]})
                        elif var == 3:
                            out.append({"op": "feed", "id": a, "m": [176 + ch, 6, rval(rng)]})
                            out.append({"op": "feed", "id": a, "m": [176 + ch, 38, rval(rng)]})
                        after(ch, 0)
    return out


# ----------------------------------------------------------------------------- long runs (counters, ages)

def run_lengths(thorough=False):
    """Lengths of a run of identical calls: every small length (thresholds), windows below the powers of
    two at which 8- and 16-bit counters wrap, and a few large ones (any 'older than T' rule with T
    below the largest length shows there)."""
    ns = set(range(1, 41)) | {63, 64, 65, 100, 127, 128, 129, 511, 512, 513, 1000, 1023, 1024, 1025,
                              4095, 4096, 4097, 10000}
    ns |= set(range(216, 260))
    if thorough:
        ns |= set(range(65536 - 40, 65536 + 3)) | {32767, 32768, 32769, 100000, 131072}
    else:
        ns |= {65504, 65510, 65520, 65530, 65534, 65535, 65536, 65537}
    return sorted(ns)


def long_runs(rng, kind, to, thorough=False, base_id=800, fillers=None, lengths=None):
    """A scanner holds partial progress (prefix), then the same call is made n times (`rep`), then the
    construct is completed (suffix).  A twin scanner that is spared the run shows what must come out:
      other-channel / system traffic, polls of other channels ... twin = prefix + suffix  (C15)
      same-channel non-contributing traffic ...................... twin = prefix + suffix  (C16)
      resets ....................................................... twin = a new scanner   (C17)
      repeats of the last prefix message: no twin, the monitors of the scanner's own properties judge."""
    out = []
    a, b = base_id, base_id + 1
    lengths = lengths or run_lengths(thorough)
    ch = rng.choice([0, 3, 9, 15])
    oc = (ch + 1 + rng.randrange(15)) % 16
    if kind == "cc14":
        cn = rng.randrange(32)
        scen = [([[176 + ch, cn, 100]], [[176 + ch, cn + 32, 3], [176 + ch, cn + 32, 4]])]
        fill = {"other": [176 + oc, cn, 9], "other-lsb": [176 + oc, cn + 32, 9], "noncontrib": [144 + ch, 60, 1],
                "noncontrib-cc": [176 + ch, 64 + rng.randrange(64), 1], "system": [248, 0, 0], "sysex": [240, 5, 5]}
    else:
        x, y = [176 + ch, 99, 3], [176 + ch, 98, 37]
        scen = [([x, y, [176 + ch, 38, 24]], [[176 + ch, 6, 117], [176 + ch, 38, 25]]),
                ([x, y], [[176 + ch, 6, 99], [176 + ch, 96, 1]]),
                ([x, y, [176 + ch, 6, 50]], [[176 + ch, 38, 7], [176 + ch, 97, 2]]),
                # a value LSB, then the number is selected again (which discards the LSB); the run repeats the
                # number byte - a contributing message that is a no-op for the specification - so that the value
                # MSB arrives exactly n + 1 contributing messages after the LSB (filler `repeat` only)
                ([x, y, [176 + ch, 38, 24], y], [[176 + ch, 6, 117], [176 + ch, 96, 1]])]
        fill = {"other": [176 + oc, 6, 5], "other-num": [176 + oc, 99, 5], "noncontrib": [144 + ch, 60, 1],
                "noncontrib-cc": [176 + ch, rng.choice([5, 7, 37, 39, 95, 102, 120, 121, 123]), rng.choice([0, 1, 127])],
                "system": [248, 0, 0], "sysex": [240, 6, 5]}
    names = fillers or (list(fill) + ["reset", "repeat"] + (["poll-other", "poll-same"] if kind == "poll" else []))
    for pre, post in scen:
        for name in names:
            for n in lengths:
                if n > 5000 and name in ("other-lsb", "other-num", "sysex", "noncontrib-cc") and not thorough:
                    continue
                if len(pre) == 4 and name != "repeat":
                    continue
                if name == "repeat" and kind == "poll" and pre[-1][1] == 38:
                    continue        # a further LSB undoes the previous one: repeating it is not a no-op
                twp = {"reset": "C17", "repeat": None, "noncontrib": "C16", "noncontrib-cc": "C16", "system": "C16",
                       "sysex": "C16", "poll-same": None}.get(name, "C15")
                via = rng.choice(["new", "new", "default"]) if to == 0 else "new"
                out.append({"op": "new", "id": a, "k": kind, "to": to, "via": via})
                if twp:
                    # the twin is made the same way (new() = default() is C17's business, not C15's / C16's)
                    out.append({"op": "new", "id": b, "k": kind, "to": to, "via": via if twp != "C17" else "new"})
                for m in pre:
                    out.append({"op": "feed", "id": a, "m": m})
                    if twp and twp != "C17":
                        out.append({"op": "feed", "id": b, "m": m, "tw": 1, "twp": twp})
                if name == "reset":
                    inner = {"op": "reset", "id": a}
                elif name == "repeat":
                    inner = {"op": "feed", "id": a, "m": pre[-1]}
                elif name == "poll-other":
                    inner = {"op": "poll", "id": a, "ch": oc}
                elif name == "poll-same":
                    inner = {"op": "poll", "id": a, "ch": ch}       # no time has passed: early for every timeout > 0
                else:
                    inner = {"op": "feed", "id": a, "m": fill[name]}
                special = len(pre) == 4
                if special:
                    # the run is followed directly by a real 7-bit encoding (x, y, value MSB): its value MSB is the
                    # n + 1-th contributing message after the value LSB
                    out.append({"op": "rep", "n": max(n - 2, 1), "cmd": inner})
                else:
                    out.append({"op": "rep", "n": n, "cmd": inner})
                for m in ([] if special else post):
                    out.append({"op": "feed", "id": a, "m": m})
                    if twp:
                        out.append({"op": "feed", "id": b, "m": m, "tw": 1, "twp": twp})
                if kind == "poll":
                    out.append({"op": "tick", "id": -1, "dt": max(to, 0) + 1})
                    out.append({"op": "poll", "id": a, "ch": ch})
                    if twp:
                        out.append({"op": "poll", "id": b, "ch": ch, "tw": 1, "twp": twp})
                # ... and a real encoding is still inverted afterwards (C07 / C10 / C12)
                if kind == "cc14":
                    out.append({"op": "enc14", "id": a, "msg": [ch, rng.choice([cn, rng.randrange(32)]), rng.randrange(16384)]})
                elif kind == "pn":
                    m = rand_pn_msg(rng, kinds=("7",)) if special else rand_pn_msg(rng)
                    m[0] = ch
                    out.append({"op": "encpn", "id": a, "msg": m, "ord": "lsb"})
                else:
                    m = rand_pn_msg(rng, kinds=("7",)) if special else rand_pn_msg(rng)
                    m[0] = ch
                    ord_ = rng.choice(["msb", "lsb"])
                    nbytes = 4 if m[4] == 1 else 3
                    out.append({"op": "encpn", "id": a, "msg": m, "ord": ord_, "gk": "rtp", "more": 1})
                    out.append({"op": "tick", "id": a, "dt": max(to, 0) + 1})
                    out.append({"op": "poll", "id": a, "ch": ch,
                                "grp": {"k": "rtp", "i": nbytes + 1, "n": nbytes + 1, "msg": m, "ord": ord_}})
    return out


# ----------------------------------------------------------------------------- far-away times

SPEC_TICK_CAP = 10_000_000      # harness/src/sut.rs: what the specification sees of one time step (ms)

# clock readings (ms) at which a narrower representation of time would wrap or saturate
# (2^32 ns, 2^16 ms, 2^31 / 2^32 us, 2^24 ms, 2^31 / 2^32 ms = 24.8 / 49.7 days).  Readings beyond 2^63 ns
# (292 years) are left out on purpose: `std::time::Instant` itself cannot represent them on every platform,
# so an implementation that keeps u64 / i64 nanoseconds is not at fault there.
TIME_BOUNDARIES = [4294, 4295, 65535, 65536, 2147483, 2147484, 4294967, 4294968, 16777216,
                   2**31, 2**32, 2**32 + 1000, 2**33]


def tick(iid, dt):
    """A time step; steps beyond the cap carry the real amount as a decimal string."""
    if dt > SPEC_TICK_CAP:
        return {"op": "tick", "id": iid, "dt": SPEC_TICK_CAP, "dtx": str(dt)}
    return {"op": "tick", "id": iid, "dt": dt}


def far_times(rng, n_segments, seg=120, first_id=950, timeouts=(1, 5, 10, 1000), bursts=False):
    """The polling scanner long after its creation / first use: random traffic whose clock crosses a
    boundary at which 16/32/64-bit counts of ns, us or ms wrap.  The specification sees the same history
    with every step capped (it only compares differences with the timeout)."""
    out = []
    iid = first_id
    for s in range(n_segments):
        to = rng.choice(timeouts)
        w = rng.choice(TIME_BOUNDARIES)
        start = rng.choice([0, 0, w - rng.choice([1, 2, to, to + 1, 3 * to])]) if w < 2**63 else 0
        start = max(start, 0)
        cmd = {"op": "new", "id": iid, "k": "poll", "to": to}
        if start:
            cmd.update({"now": min(start, SPEC_TICK_CAP), "nowx": str(start)})
        out.append(cmd)
        chans = pick_chans(rng)
        tr = Traffic(rng, "poll", chans)
        # first use at the start, so that an epoch taken lazily is `start`
        for _ in range(rng.randrange(4)):
            out.append({"op": "feed", "id": iid, "m": tr.msg()})
        if rng.random() < 0.5:
            c = rng.choice(chans)
            out += [{"op": "feed", "id": iid, "m": [176 + c, 99, 3]}, {"op": "feed", "id": iid, "m": [176 + c, 98, 37]}]
        # jump to just before the boundary (measured from 0 or from `start`)
        target = w if start == 0 or rng.random() < 0.5 else start + w
        target = min(target, 2**64 - 10**5)
        gap = target - start - rng.choice([0, 1, 2, to, to + 1, 2 * to + 1, 50])
        if gap > 0:
            out.append(tick(iid, gap))
        for _ in range(seg):
            r = rng.random()
            if r < 0.50:
                out.append({"op": "feed", "id": iid, "m": tr.msg(), "f": impl(rng)})
            elif r < 0.70:
                out.append({"op": "poll", "id": iid, "ch": rng.choice(chans)})
            elif r < 0.78:
                # C12 ('consequently'): a real encoding, wait, poll - reports exactly that message
                msg = rand_pn_msg(rng)
                msg[0] = rng.choice(chans)
                ord_ = rng.choice(["msb", "lsb"])
                nbytes = 4 if msg[4] == 1 else 3
                out.append({"op": "encpn", "id": iid, "msg": msg, "ord": ord_, "gk": "rtp", "more": 1})
                out.append(tick(iid, to + rng.choice([0, 1, 3, 20])))
                out.append({"op": "poll", "id": iid, "ch": msg[0],
                            "grp": {"k": "rtp", "i": nbytes + 1, "n": nbytes + 1, "msg": msg, "ord": ord_}})
            else:
                out.append(tick(iid, rng.choice([0, 1, 1, 2, to - 1 if to > 1 else 1, to, to + 1, 2 * to, 7])))
    return out


def pending_across_wraps(rng, first_id=960, timeouts=(1, 5, 10, 1000)):
    """A value stays pending for a wrap period of a narrower time representation (2^32 ns, 2^16 ms, 2^31 / 2^32
    us, 2^24 ms, 2^31 / 2^32 ms) plus 0 .. timeout: an AGE truncated to that width looks young again.  The poll
    after the wait must deliver it (C13 / C14: no loss, the first poll at or after the deadline)."""
    out = []
    iid = first_id
    for to in timeouts:
        for w in TIME_BOUNDARIES:
            for extra in sorted({0, 1, to - 1 if to > 1 else 0, to}):
                for first in ("msb", "lsb"):
                    c = rng.randrange(16)
                    out.append({"op": "new", "id": iid, "k": "poll", "to": to})
                    out += [{"op": "feed", "id": iid, "m": [176 + c, 99, 3]}, {"op": "feed", "id": iid, "m": [176 + c, 98, 37]}]
                    out.append({"op": "feed", "id": iid, "m": [176 + c, 6 if first == "msb" else 38, rval(rng)]})
                    out.append(tick(iid, w + extra))
                    out.append({"op": "poll", "id": iid, "ch": c})
                    # what comes next starts afresh: a complete message is decoded
                    msg = rand_pn_msg(rng)
                    msg[0] = c
                    nbytes = 4 if msg[4] == 1 else 3
                    out.append({"op": "encpn", "id": iid, "msg": msg, "ord": "msb", "gk": "rtp", "more": 1})
                    out.append(tick(iid, to + 1))
                    out.append({"op": "poll", "id": iid, "ch": c,
                                "grp": {"k": "rtp", "i": nbytes + 1, "n": nbytes + 1, "msg": msg, "ord": "msb"}})
    return out


def edge_timeouts(rng, first_id=980, sleep=False):
    """Timeouts at the edge of what the clock can represent WHEN THE SCANNER IS MADE (`to` = -100 - k: k seconds
    below the longest timeout whose deadline `now + timeout` is representable; the executor finds it by bisection
    through `checked_add`).  For the specification they are infinite; for the code `now + timeout` is representable
    at creation and no longer once time has passed.  With `sleep` the steps are real waits (production configuration)."""
    out = []
    iid = first_id
    for k in (0, 1, 2, 3, 10):
        for first in (6, 38):
            c = rng.randrange(16)
            out.append({"op": "new", "id": iid, "k": "poll", "to": -100 - k})
            out += [{"op": "feed", "id": iid, "m": [176 + c, 99, 3]}, {"op": "feed", "id": iid, "m": [176 + c, 98, 37]}]
            step = {"op": "tick", "id": iid, "dt": 1100 if sleep else rng.choice([1, 1000, 2500, 11000])}
            if sleep:
                step["sleep"] = True
            out.append(step)
            out.append({"op": "feed", "id": iid, "m": [176 + c, first, rval(rng)]})          # starts the wait
            out.append({"op": "poll", "id": iid, "ch": c})
            out.append({"op": "tick", "id": iid, "dt": 1 if sleep else rng.choice([1, 5000, 10 ** 6])})
            out.append({"op": "feed", "id": iid, "m": [176 + c, 6, rval(rng)]})              # re-arms / completes
            out.append({"op": "feed", "id": iid, "m": [176 + c, 38, rval(rng)]})
            out.append({"op": "poll", "id": iid, "ch": c})
            out.append({"op": "feed", "id": iid, "m": [176 + c, 96, 1]})
            # (no reset() here: the executor would compare with a NEW scanner whose edge timeout is computed at a
            # later clock reading and therefore differs - an artefact of the script, not of the code)
            if sleep:
                break           # one real wait per k is enough
    return out


def saturation_battery(rng, kind, to, base_id=100):
    """C15: ALL 16 channels hold the same kind of partial progress at once (fed in channel order, in reverse or
    shuffled), then every channel is completed / polled, again in several orders.  Interleaved scanner (id base)
    against one scanner per channel (id base + 1 + c).  Shared bookkeeping over the channels (a list of busy
    channels, a counter of pending values) is full only here."""
    out = []
    if kind == "cc14":
        prefixes = [[[7, 100]], [[7, 100], [39, 1]]]
        posts = [[[39, 5]], [[7, 3], [39, 6]]]
    else:
        sel = [[99, 3], [98, 37]]
        prefixes = [sel, sel + [[6, 50]], sel + [[38, 7]], [[101, 0]], sel + [[6, 50], [38, 7]]]
        posts = [[[6, 117]], [[38, 24]], [[96, 1]], [[6, 9], [38, 8]]]
    orders = [list(range(16)), list(reversed(range(16)))]
    sh = list(range(16))
    rng.shuffle(sh)
    orders.append(sh)
    for pre in prefixes:
        for post in posts:
            for o1 in orders:
                o2 = rng.choice(orders)
                out.append({"op": "new", "id": base_id, "k": kind, "to": to})
                for c in range(16):
                    out.append({"op": "new", "id": base_id + 1 + c, "k": kind, "to": to})

                def feed(c, cn, v):
                    m = [176 + c, cn, v]
                    out.append({"op": "feed", "id": base_id, "m": m})
                    out.append({"op": "feed", "id": base_id + 1 + c, "m": m, "tw": 1, "twp": "C15"})

                def poll(c):
                    out.append({"op": "poll", "id": base_id, "ch": c})
                    out.append({"op": "poll", "id": base_id + 1 + c, "ch": c, "tw": 1, "twp": "C15"})

                for c in o1:
                    for cn, v in pre:
                        feed(c, cn, v)
                late = rng.random() < 0.5
                if kind == "poll" and late:
                    out.append({"op": "tick", "id": -1, "dt": max(to, 0) + 1})
                for c in o2:
                    if kind == "poll" and rng.random() < 0.5:
                        poll(c)
                    for cn, v in post:
                        feed(c, cn, v)
                if kind == "poll":
                    out.append({"op": "tick", "id": -1, "dt": max(to, 0) + 1})
                    for c in o1:
                        poll(c)
    return out


def far_times_twin(rng, n_segments, base_id=970, timeouts=(1, 5, 10)):
    """C15 at far-away times: one channel holds a pending value across a clock boundary while another
    channel is fed; the per-channel scanners see only their own channel."""
    out = []
    for s in range(n_segments):
        to = rng.choice(timeouts)
        w = rng.choice(TIME_BOUNDARIES)
        a, b = rng.sample(range(16), 2)
        ids = {a: base_id + 1, b: base_id + 2}
        for i in (base_id, base_id + 1, base_id + 2):
            out.append({"op": "new", "id": i, "k": "poll", "to": to})

        def feed(m):
            out.append({"op": "feed", "id": base_id, "m": m})
            out.append({"op": "feed", "id": ids[m[0] % 16], "m": m, "tw": 1, "twp": "C15"})

        def poll(c):
            out.append({"op": "poll", "id": base_id, "ch": c})
            out.append({"op": "poll", "id": ids[c], "ch": c, "tw": 1, "twp": "C15"})

        for m in ([176 + a, 99, 3], [176 + a, 98, 37], [176 + a, 6, 1]):
            feed(m)
        out.append(tick(-1, to + 1))
        poll(a)
        if rng.random() < 0.5:
            for m in ([176 + b, 99, 4], [176 + b, 98, 38]):
                feed(m)
        d1 = rng.choice([1, 2, to - 1 if to > 1 else 1, to, 8])
        out.append(tick(-1, max(w - (to + 1) - d1, 1)))
        feed([176 + a, 6, 126])                       # pending on a, shortly before the boundary
        out.append(tick(-1, d1 + rng.choice([0, 1, 2, 8])))
        feed([176 + b, rng.choice([6, 99, 98, 38, 96]), 5])      # b is fed after the boundary
        out.append(tick(-1, rng.choice([0, 1, to, to + 1, 12])))
        poll(a)
        poll(b)
        out.append(tick(-1, to + 1))
        poll(a)
        poll(b)
    return out


# ----------------------------------------------------------------------------- copies

def copy_battery(rng, kind, to, base_id=990):
    """C17 (copies): in states with partial progress - also with a value that is already overdue - a
    copy made by `Clone::clone` and one made by the bitwise `Copy` equal the original, report what the
    original reports from then on, and do not disturb it."""
    out = []
    a, b, c = base_id, base_id + 1, base_id + 2
    ch = rng.randrange(16)
    if kind == "cc14":
        prefixes = [[], [[176 + ch, 7, 100]], [[176 + ch, 7, 100], [176 + ch, 39, 1]], [[176 + ch, 39, 1]]]
        post = [[176 + ch, 39, 5], [176 + ch, 7, 3], [176 + ch, 39, 6]]
    else:
        x, y = [176 + ch, 101, 3], [176 + ch, 100, 36]
        prefixes = [[], [x], [y], [x, y], [x, y, [176 + ch, 6, 126]], [x, y, [176 + ch, 38, 24]],
                    [x, y, [176 + ch, 6, 1], [176 + ch, 38, 2]], [x, y, [176 + ch, 96, 1]]]
        post = [[176 + ch, 38, 9], [176 + ch, 6, 77], [176 + ch, 38, 10], [176 + ch, 97, 1]]
    waits = [0] if kind != "poll" else ([0, 1, 1000] if to < 0 else sorted({0, 1, max(to - 1, 0), to, to + 1, 10 * to + 1}))
    for pre in prefixes:
        for wait in waits:
            for via in ("clone", "copy"):
                out.append({"op": "new", "id": a, "k": kind, "to": to})
                for m in pre:
                    out.append({"op": "feed", "id": a, "m": m})
                if wait:
                    out.append({"op": "tick", "id": -1, "dt": wait})
                out.append({"op": "copy", "id": a, "to2": b, "via": via})
                out.append({"op": "eq", "id": a, "b": b, "xe": True, "xp": "C17"})
                out.append({"op": "copy", "id": a, "to2": c, "via": via})
                if kind == "poll":
                    out.append({"op": "poll", "id": a, "ch": ch})
                    out.append({"op": "poll", "id": b, "ch": ch, "tw": 1, "twp": "C17"})
                for m in post:
                    out.append({"op": "feed", "id": a, "m": m})
                    out.append({"op": "feed", "id": b, "m": m, "tw": 1, "twp": "C17"})
                if kind == "poll":
                    out.append({"op": "tick", "id": -1, "dt": max(to, 0) + 1})
                    out.append({"op": "poll", "id": a, "ch": ch})
                    out.append({"op": "poll", "id": b, "ch": ch, "tw": 1, "twp": "C17"})
                # the second copy stayed behind: moving it now is judged by the monitors like any other call
                if kind == "poll":
                    out.append({"op": "poll", "id": c, "ch": ch})
    return out


# ----------------------------------------------------------------------------- the real clock

def real_time_script(rng, n_late=120, n_early=3000, first_id=930):
    """Production configuration (real `Instant`), finite timeouts.  Real time only ever runs AHEAD of what
    a script declares (calls take time, sleeps guarantee at least their length), so a script is safe from
    scheduling noise if no outcome depends on real time being SHORT:
      part A, timeout 3 ms: every poll directly follows a real sleep of timeout + 1 ms - whatever is
        pending is overdue both in the declared and in the real time;
      part B, timeout 10 min: no waiting at all - every poll is early unless the run stalls for 10 minutes."""
    out = []
    a, b = first_id, first_id + 1
    to = 3
    out.append({"op": "new", "id": a, "k": "poll", "to": to})
    chans = rng.sample(range(16), 2)
    tr = Traffic(rng, "poll", chans)
    for _ in range(n_late):
        for _ in range(rng.randrange(1, 9)):
            out.append({"op": "feed", "id": a, "m": tr.msg(), "f": impl(rng)})
        if rng.random() < 0.3:
            msg = rand_pn_msg(rng)
            msg[0] = rng.choice(chans)
            ord_ = rng.choice(["msb", "lsb"])
            nbytes = 4 if msg[4] == 1 else 3
            out.append({"op": "encpn", "id": a, "msg": msg, "ord": ord_, "gk": "rtp", "more": 1})
            out.append({"op": "tick", "id": a, "dt": to + 1, "sleep": True})
            out.append({"op": "poll", "id": a, "ch": msg[0],
                        "grp": {"k": "rtp", "i": nbytes + 1, "n": nbytes + 1, "msg": msg, "ord": ord_}})
        else:
            out.append({"op": "tick", "id": a, "dt": to + 1, "sleep": True})
            out.append({"op": "poll", "id": a, "ch": rng.choice(chans)})
            if rng.random() < 0.3:
                out.append({"op": "poll", "id": a, "ch": rng.choice(chans)})      # nothing can be pending any more ... on that channel or is overdue on the other
    # part A': timeout 1 ms, the caller polls in a tight loop until the value arrives (`spin`): the clock is
    # read around the moment the timeout expires, which no scripted time step can arrange
    c = first_id + 2
    ch = rng.randrange(16)
    out.append({"op": "new", "id": c, "k": "poll", "to": 1})
    out.append({"op": "feed", "id": c, "m": [176 + ch, 99, 3]})
    out.append({"op": "feed", "id": c, "m": [176 + ch, 98, 37]})
    for i in range(n_late):
        out.append({"op": "feed", "id": c, "m": [176 + ch, 6, i % 128]})
        out.append({"op": "tick", "id": c, "dt": 1})
        out.append({"op": "spin", "id": c, "ch": ch, "max_ms": 3000})
    out.append({"op": "new", "id": b, "k": "poll", "to": 600000})
    tr = Traffic(rng, "poll", pick_chans(rng))
    for _ in range(n_early):
        r = rng.random()
        if r < 0.7:
            out.append({"op": "feed", "id": b, "m": tr.msg(), "f": impl(rng)})
        elif r < 0.98:
            out.append({"op": "poll", "id": b, "ch": rng.choice(tr.chans)})
        else:
            out.append({"op": "reset", "id": b})
    return out


def real_time_measured(rng, n_segments, T=300, M=100, base_id=940):
    """Production configuration (real `Instant`), a finite timeout T ms, outcomes that DO depend on real
    time being short - made safe by measurement instead of by avoidance.  Every feed and poll is bracketed
    by two real-clock readings (`rt`: r0 before, r1 after the call, microseconds); whatever reading the
    call itself took lies between them, so for a poll p and an earlier feed f of the same channel the
    scanner's own `elapsed` lies in [p.r0 - f.r1, p.r1 - f.r0].  The script only polls a channel when every
    earlier value of that channel is at least T + M or at most T - M old in DECLARED time (`sn`, ms), and
    `scanners.measured_filter` discards a segment from the first poll whose classification the measured
    brackets do not confirm (a prefix of a trace is a trace).  What is left is judged by the same trace
    specification as every scripted-clock run.  Instance a gets the interleaved stream of 2-3 channels,
    instances b + c the projection on each of them at the same moments (twins, C15), every call of a twin on a fresh
    thread of its own (`thr`) so that the two share no thread-local state: a time stamp or a clock
    reading shared between channels shows here and nowhere under a scripted clock."""
    out = []
    a, b = base_id, base_id + 1
    for seg in range(n_segments):
        chans = rng.sample(range(16), rng.choice([2, 2, 3]))
        out.append({"op": "new", "id": a, "k": "poll", "to": T, "seg": seg})
        for c in chans:
            out.append({"op": "new", "id": b + c, "k": "poll", "to": T, "seg": seg})
        t = 0
        feeds = {c: [] for c in chans}

        def feed(m):
            out.append({"op": "feed", "id": a, "m": m, "rt": True, "sn": t})
            if m[0] < 240:
                feeds.setdefault(m[0] % 16, []).append(t)
                if m[0] % 16 in chans:
                    out.append({"op": "feed", "id": b + m[0] % 16, "m": m, "rt": True, "thr": True, "sn": t, "tw": 1, "twp": "C15"})

        def sleep(dt):
            nonlocal t
            out.append({"op": "tick", "id": -1, "dt": dt, "sleep": True})
            t += dt

        def settled(c):
            return all(t - f >= T + M or t - f <= T - M for f in feeds[c])

        def poll(c):
            out.append({"op": "poll", "id": a, "ch": c, "rt": True, "sn": t})
            if c in chans:
                out.append({"op": "poll", "id": b + c, "ch": c, "rt": True, "thr": True, "sn": t, "tw": 1, "twp": "C15"})

        for c in chans:
            reg = rng.random() < 0.5
            feed([176 + c, 101 if reg else 99, rval(rng)])
            feed([176 + c, 100 if reg else 98, rval(rng)])
        shape = rng.random()
        if shape < 0.35:
            # one channel holds a value; much later another channel gets one and is polled EARLY, then late
            x, y = chans[0], chans[1]
            if rng.random() < 0.5:
                x, y = y, x
            feed([176 + x, rng.choice([6, 38]), rval(rng)])
            sleep(rng.choice([T - M, T - M - 40, T + M]))
            if rng.random() < 0.5 and settled(x):
                poll(x)
            feed([176 + y, 6, rval(rng)])
            sleep(rng.choice([40, 120, T - M]))
            if settled(y):
                poll(y)
            if settled(x):
                poll(x)
            sleep(T + M - 40)
            if settled(y):
                poll(y)
        for _ in range(rng.randrange(6, 14)):
            r = rng.random()
            c = rng.choice(chans)
            if r < 0.40:
                k = rng.random()
                if k < 0.7:
                    feed([176 + c, rng.choice([6, 6, 38, 38, 96, 97]), rval(rng)])
                elif k < 0.85:
                    feed([176 + c, rng.choice([98, 99, 100, 101]), rval(rng)])
                else:
                    feed([rng.choice(OTHER_CH_STATUS) + c, rng.choice(PN_CNS), rval(rng)])
            elif r < 0.65:
                sleep(rng.choice([30, 60, 120, 180, T - M, T + M, T + M + 20]))
            elif settled(c):
                poll(c)
            else:
                sleep(rng.choice([60, 120, 2 * M]))
        sleep(T + M + 20)
        for c in chans:
            poll(c)
    return out


def reset_after_histories(rng, kind, to, base_id=720, depth=4):
    """C17: reset() after EVERY short history over the contributing controllers of one channel (all
    orders of value MSB / LSB / increment / re-selection after a number selection; all orders of two MSB /
    LSB pairs for the 14-bit CC scanner), then `== new`, then a complete construct fed to the reset scanner
    and to a new one.  Hidden state that survives reset() is set by SOME order of these."""
    import itertools
    out = []
    a, b = base_id, base_id + 1
    ch = rng.randrange(16)
    if kind == "cc14":
        n1, n2 = 7, rng.choice([0, 1, 31])
        alpha = [[176 + ch, n1, 100], [176 + ch, n1 + 32, 3], [176 + ch, n2, 50], [176 + ch, n2 + 32, 4], [192 + ch, 5, 0]]
        pre0 = []
        post = [[176 + ch, n1, 9], [176 + ch, n1 + 32, 8], [176 + ch, n2 + 32, 7], [176 + ch, n2, 6], [176 + ch, n2 + 32, 5]]
    else:
        pre0 = [[176 + ch, 99, 3], [176 + ch, 98, 37]]
        alpha = [[176 + ch, 6, 117], [176 + ch, 38, 24], [176 + ch, 96, 1], [176 + ch, 98, 38], [176 + ch, 101, 3]]
        post = [[176 + ch, 99, 3], [176 + ch, 98, 37], [176 + ch, 6, 100], [176 + ch, 38, 24], [176 + ch, 97, 1],
                [176 + ch, 101, 3], [176 + ch, 100, 36], [176 + ch, 38, 7], [176 + ch, 6, 8]]
    # ... and histories that also contain messages with a meaning of their own on that channel (channel mode
    # messages, bank select, program change, system reset): whatever they do to the scanner, reset() undoes it
    loaded = [[176 + ch, 121, 0], [176 + ch, 120, 0], [176 + ch, 123, 0], [176 + ch, 0, 1], [192 + ch, 5, 0], [255, 0, 0]]
    seqs = [seq for n in range(1, depth + 1) for seq in itertools.product(alpha, repeat=n)]
    wide = alpha + loaded
    seqs += [seq for n in range(1, min(depth, 4)) for seq in itertools.product(wide, repeat=n) if any(m in loaded for m in seq)]
    for seq in seqs:
        if True:
            out.append({"op": "new", "id": a, "k": kind, "to": to})
            for m in pre0 + list(seq):
                out.append({"op": "feed", "id": a, "m": m})
            out.append({"op": "reset", "id": a})
            out.append({"op": "new", "id": b, "k": kind, "to": to})
            out.append({"op": "eq", "id": a, "b": b, "xe": True, "xp": "C17"})
            for m in post:
                out.append({"op": "feed", "id": a, "m": m})
                out.append({"op": "feed", "id": b, "m": m, "tw": 1, "twp": "C17"})
            if kind == "poll":
                out.append({"op": "tick", "id": -1, "dt": max(to, 0) + 1})
                out.append({"op": "poll", "id": a, "ch": ch})
                out.append({"op": "poll", "id": b, "ch": ch, "tw": 1, "twp": "C17"})
    return out
