"""Checks for the pure layers (C01-C06, C09, C16 predicates, C18, C19): table validation.
The harness enumerates the input domain and records what the real code returned; TLC
(spec/Tables.tla) judges every row."""
import json
import os
import shutil
import time

from common import ConfigUnavailable, ToolError, build_harness, harness, log, read_ndjson, tlc, tlc_text, write_ndjson, REPLAY_DIR
import scanners


def run_mc_pure(ctx, module, constants, invariants, workers=16, timeout=3000, tag=None):
    """Spec-level theorems checked by TLC on the full domain."""
    cfg = "SPECIFICATION Spec\n"
    if constants:
        cfg += "CONSTANTS\n" + "".join("  %s = %s\n" % kv for kv in constants.items())
    if invariants:
        cfg += "INVARIANT " + " ".join(invariants) + "\n"
    cfg += "CHECK_DEADLOCK FALSE\n"
    res = tlc(ctx.work, module, cfg, workers=workers, timeout=timeout, tag=tag or module)
    if not res.ok or res.errors:
        raise ToolError("spec-level theorem check failed for %s (a defect of the SPECIFICATION):\n%s" % (
            module, tlc_text(res, 60)))
    ctx.design.append({"module": module, "constants": constants, "invariants": list(invariants),
                       "distinct_states": res.distinct, "transitions": res.generated, "wall_s": round(res.wall, 1)})
    ctx.states += res.distinct
    ctx.transitions += max(res.generated, 1)
    log("MC %s: %d states, %.1fs" % (tag or module, res.distinct, res.wall))
    return res


def signature(table, clause, row):
    """Narrow description of a failing row class, used for known_findings.json."""
    return clause


def run_table(ctx, table, config="std", tier=None, per=8192, spec_table=None, extra_env=None):
    """harness table -> chunk files -> TLC judge.  Returns list of (prop, clause, row)."""
    tier = tier or ctx.tier
    d = ctx.work.fresh("table_%s_%s_" % (table, config), "d")
    if config != "std":
        try:
            build_harness("std")
            build_harness(config)
        except ConfigUnavailable as e:
            note = "configuration `%s` skipped for table %s: the crate under test does not build there" % (config, table)
            if note not in ctx.notes:
                ctx.notes.append(note)
            log("NOTE " + note + "\n" + str(e)[-600:])
            os.makedirs(d, exist_ok=True)
            return d, [], 0
    mode = [table] if table in ("ints", "serde") else ["table", table]
    out, dt = harness(config, mode + [d, tier, str(ctx.seed), str(per)], timeout=7200)
    lines = out.strip().splitlines()
    info = json.loads(lines[-1])
    chunks, nrows = info["chunks"], info["rows"]
    hstats = json.loads(lines[-2])
    ctx.distinct_rows = getattr(ctx, "distinct_rows", 0) + hstats["distinct_nontrivial"]
    ctx.row_classes = getattr(ctx, "row_classes", {})
    ctx.row_classes[table + ":" + config] = hstats.get("nontrivial_by_class", {})
    for note in hstats.get("notes", []):
        if note not in ctx.notes:
            ctx.notes.append(note)
            log("harness note: " + note)
    if nrows == 0:
        raise ToolError("table %s is empty" % table)
    cfg = "SPECIFICATION Spec\nCONSTANTS\n  K = %d\n  Table = \"%s\"\nCHECK_DEADLOCK FALSE\n" % (
        chunks, spec_table or table)
    env = {"TABLEDIR": d}
    env.update(extra_env or {})
    res = tlc(ctx.work, "Tables", cfg, env=env, workers=16, timeout=7200, xmx="24g", tag="judge_" + table)
    judged = sum(t[2] for t in res.of("CHUNK"))
    if res.errors or judged != nrows:
        raise ToolError("TLC did not judge every row of table %s (%d of %d):\n%s" % (table, judged, nrows, tlc_text(res)))
    ctx.rows = getattr(ctx, "rows", 0) + nrows
    ctx.traces += chunks
    # the judge is a TLC run of Tables.tla: one initial state and one judging transition per chunk
    ctx.states += res.distinct
    ctx.transitions += max(res.generated - chunks, chunks)
    bad = res.of("ROWBAD")
    findings = []
    cache = {}
    for t in bad:
        _, prop, clause, c, i = t
        if c not in cache:
            cache[c] = read_ndjson(os.path.join(d, "chunk_%d.ndjson" % c))
        row = cache[c][i - 1]
        findings.append((prop, clause, row))
    # bookkeeping for this check's property
    mine = {}
    for prop, clause, row in findings:
        if prop == ctx.prop:
            mine.setdefault(clause, []).append(row)
        else:
            ctx.other[prop] = ctx.other.get(prop, 0) + 1
    for clause, rows in mine.items():
        os.makedirs(REPLAY_DIR, exist_ok=True)
        rp = os.path.join(REPLAY_DIR, "%s-%s-%s-seed%d.json" % (ctx.prop, table, clause.replace("/", "_"), ctx.seed))
        json.dump({"table": table, "config": config, "clause": clause, "rows": rows[:20],
                   "count": len(rows)}, open(rp, "w"))
        ctx.viol.append({"clause": clause, "signature": signature(table, clause, rows[0]), "event": rows[0][:12],
                         "replay": rp, "count": len(rows), "driver": "table:" + table})
    # samples / distinct rows
    first = read_ndjson(os.path.join(d, "chunk_1.ndjson"), limit=3)
    if len(ctx.samples) < 5:
        ctx.samples.append({"table": table, "config": config, "rows": nrows, "first_rows": first})
    st = getattr(ctx, "table_stats", {})
    st[table + ":" + config] = {"rows": nrows, "chunks": chunks, "judge_wall_s": round(res.wall, 1),
                                "harness_wall_s": round(dt, 1), "rows_rejected": len(bad)}
    ctx.table_stats = st
    log("table %s[%s]: %d rows in %d chunks, %d rejected (%d for %s), harness %.1fs, TLC %.1fs" % (
        table, config, nrows, chunks, len(bad), sum(len(v) for v in mine.values()), ctx.prop, dt, res.wall))
    return d, findings, nrows


def table_canary(ctx, d, table, mutate, spec_table=None):
    """Binding demonstration for tables: one cell of one row is corrupted; TLC must reject it."""
    ks = sorted(int(f[6:-7]) for f in os.listdir(d) if f.startswith("chunk_"))
    order = [ks[-1]] + ctx.rng.sample(ks, len(ks))
    idx = None
    for kk in order:
        rows = read_ndjson(os.path.join(d, "chunk_%d.ndjson" % kk))
        idx = mutate(rows, ctx.rng)
        if idx is not None:
            break
    if idx is None:
        raise ToolError("table canary: no suitable row")
    cd = ctx.work.fresh("canary_table_", "d")
    os.makedirs(cd)
    write_ndjson(os.path.join(cd, "chunk_1.ndjson"), [rows[idx]])
    cfg = "SPECIFICATION Spec\nCONSTANTS\n  K = 1\n  Table = \"%s\"\nCHECK_DEADLOCK FALSE\n" % (spec_table or table)
    res = tlc(ctx.work, "Tables", cfg, env={"TABLEDIR": cd}, workers=1, timeout=600, tag="canary")
    hit = [t for t in res.of("ROWBAD") if t[1] == ctx.prop]
    ctx.canary = {"table": table, "corrupted_row": rows[idx][:10], "rejected": bool(hit),
                  "findings": [t[1:3] for t in res.of("ROWBAD")][:4]}
    if not hit and not ctx.viol:       # with real findings on the table the verdict is already 'violation'
        raise ToolError("table canary accepted for %s: %s" % (ctx.prop, res.of("ROWBAD")[:3]))


def finish_pure(ctx, rule, exhaustive=False):
    ctx.rule = rule
    ctx.exhaustive = exhaustive and ctx.tier == "thorough"
    ctx.distinct = getattr(ctx, "distinct_rows", 0)
    ctx.extra = {"tables": getattr(ctx, "table_stats", {}), "accepted_rows_by_class": getattr(ctx, "row_classes", {})}
    shutil.rmtree(ctx.work.dir, ignore_errors=True)
    os.makedirs(ctx.work.dir, exist_ok=True)


# ----------------------------------------------------------------------------- C01 / C02 / C03

def shortmsg_theorems(ctx):
    run_mc_pure(ctx, "MC_ShortMsg", {"Full": "TRUE" if not ctx.quick else "FALSE"},
                ["Inv"], tag="MC_ShortMsg")


def _corrupt_cell(lo, hi, valid_len=97):
    def f(rows, rng):
        cand = [i for i, r in enumerate(rows) if len(r) >= valid_len]
        if not cand:
            return None
        i = rng.choice(cand)
        j = rng.randrange(lo, hi)
        rows[i][j] = rows[i][j] + 1 if rows[i][j] >= 0 else 5
        return i
    return f


def c01(ctx):
    shortmsg_theorems(ctx)
    d, f, n = run_table(ctx, "short")
    table_canary(ctx, d, "short", _corrupt_cell(77, 83))          # structured->raw bytes
    shutil.rmtree(d, ignore_errors=True)
    d2, f2, n2 = run_table(ctx, "structured")
    shutil.rmtree(d2, ignore_errors=True)
    d3, f3, n3 = run_table(ctx, "types")
    finish_pure(ctx, "rows: every (status, d1, d2) triple (thorough: all 2^21; quick: 256 status bytes x boundary x "
                     "boundary data + 50k seeded random) through RawShortMessage, StructuredShortMessage and two "
                     "harness-defined third-party implementors; every StructuredShortMessage value constructed "
                     "directly from its fields (thorough: all 1.33M; quick: boundary fields); 128+120 quarter-frame and "
                     "256 type-byte conversions.  Oracle: ValidStatus / identity / Canon (= Mask, proved equal by TLC on "
                     "the whole domain).  distinct_nontrivial = distinct rows (hash of the whole row) whose call succeeded (accepted / constructed), counted by the harness.", exhaustive=True)


def c02(ctx):
    shortmsg_theorems(ctx)
    d, f, n = run_table(ctx, "short")
    table_canary(ctx, d, "short", _corrupt_cell(9, 23))           # an accessor of the raw vector
    shutil.rmtree(d, ignore_errors=True)
    d2, f2, n2 = run_table(ctx, "structured")
    shutil.rmtree(d2, ignore_errors=True)
    run_table(ctx, "types")
    run_table(ctx, "first", per=400)       # every accessor as the first query of a fresh process
    # growth beyond the listed properties: derived Ord / Eq / Hash, constants, TimeCodeType (never a VIOLATION)
    dm, fm, nm = run_table(ctx, "misc")
    growth = sorted({c for p_, c, r in fm if p_ == "GROWTH"})
    ctx.notes.append("growth table misc: %d rows, findings outside the listed properties: %s" % (nm, growth or "none"))
    for c in growth:
        print("NOTE finding outside the listed properties (table misc): %s" % c)
    finish_pure(ctx, "rows: the full accessor vector (26 trait-method results, each call guarded on its own) of every "
                     "triple for raw, structured and third-party implementations, judged against Obs (the MIDI 1.0 "
                     "table in ShortMsg.tla); ShortMessageType <-> u8 for all 256 bytes; controller-number "
                     "predicates for all 128 numbers.  distinct_nontrivial = distinct rows whose call succeeded, counted by the harness.", exhaustive=True)


def c03(ctx):
    shortmsg_theorems(ctx)
    d, f, n = run_table(ctx, "short")
    table_canary(ctx, d, "short", lambda rows, rng: _set_flag(rows, rng))
    shutil.rmtree(d, ignore_errors=True)
    run_table(ctx, "first", per=400)       # every accessor as the first query of a fresh process
    finish_pure(ctx, "rows: per triple, the accessor vectors of RawShortMessage, StructuredShortMessage, a byte-getter-"
                     "only implementor and one overriding to_bytes, compared by == inside the harness (flags) and against "
                     "Obs / Obs o Canon by TLC; conversions to_other / from_other / to_structured between all of them.  "
                     "distinct_nontrivial = distinct rows whose call succeeded, counted by the harness.", exhaustive=True)


def _set_flag(rows, rng):
    cand = [i for i, r in enumerate(rows) if len(r) >= 97]
    if not cand:
        return None
    i = rng.choice(cand)
    # one of the 16 equivalence flags, or one of the "other ways" flags that C03 owns (1-7)
    rows[i][rng.choice([61 + rng.randrange(16), 89 + rng.randrange(7)])] = 0
    return i


# ----------------------------------------------------------------------------- C04 / C05

def _corrupt_ints_range(rows, rng):
    """C04: an accepted conversion whose recorded result is pushed out of range."""
    cand = [i for i, r in enumerate(rows) if r[0] in (0, 2) and r[6] == 1]
    if not cand:
        return None
    i = rng.choice(cand)
    rows[i][7] = rows[i][7] + 20000
    return i


def _corrupt_ints_value(rows, rng):
    """C05: a conversion to a primitive whose recorded value is changed by one."""
    cand = [i for i, r in enumerate(rows) if r[0] == 4]
    if not cand:
        return None
    i = rng.choice(cand)
    rows[i][6] += 1
    return i


def c04(ctx):
    import gen
    run_mc_pure(ctx, "MC_Ints", {}, ["Inv"], tag="MC_Ints")
    d, f, n = run_table(ctx, "ints", config="std", per=20000)
    table_canary(ctx, d, "ints", _corrupt_ints_range)
    shutil.rmtree(d, ignore_errors=True)
    d, f, n = run_table(ctx, "ints", config="nostd", per=20000)
    shutil.rmtree(d, ignore_errors=True)
    # "values returned by any other API": data bytes / fields of messages from factories, encoders, scanners
    for t in ("short", "structured", "types", "factory", "pnmsg"):
        d, f, n = run_table(ctx, t, tier="quick", per=16384)
        shutil.rmtree(d, ignore_errors=True)
    # the configuration axis for message fields and data bytes: the same tables from the build WITHOUT std
    for t in ("short", "factory", "pnmsg"):
        d, f, n = run_table(ctx, t, config="nostd", tier="quick", per=16384)
        shutil.rmtree(d, ignore_errors=True)
    rows = gen.random_plain(ctx.rng, "cc14", ctx.q(8000, 60000)) + gen.random_plain(ctx.rng, "pn", ctx.q(8000, 60000), first_id=2) \
        + gen.random_poll(ctx.rng, ctx.q(8000, 60000), first_id=3) + gen.roundtrip_cc14(ctx.rng, ctx.q(500, 5000), first_id=4) \
        + gen.roundtrip_pn(ctx.rng, ctx.q(500, 5000), first_id=5)
    for kind in ("cc14", "pn", "poll"):
        rows += gen.extreme_values(ctx.rng, kind, ctx.q(6000, 60000))
    scanners.run_script(ctx, rows, "ranges-of-scanner-and-encoder-outputs")
    events = ctx.events
    finish_pure(ctx, "rows: every implemented conversion into each of the six types - exhaustive for 8/16-bit and newtype "
                     "sources, boundaries + powers of two +-1 + seeded random for 32/64/128-bit and pointer-sized sources; "
                     "`new` for every value of the representation type; parsing of all strings over {0-9,+,-,space,a} up to "
                     "length 3 (thorough: 4) plus boundary / leading-zero / non-ASCII numerals; MIN/MAX/Default - produced by "
                     "TWO builds of the harness (default features; default-features = false) and judged by TLC against "
                     "InRange / TryOk / ParseOk; plus the range conjunct on the tables of short messages, structured values, "
                     "constants, factory constructors and (N)RPN encodings (the last three kinds also from the build without std) "
                     "and on every report of the scanners and encoders in random traces.  distinct_nontrivial = distinct rows whose call succeeded, counted by the harness.")
    ctx.events = events


def c05(ctx):
    run_mc_pure(ctx, "MC_Ints", {}, ["Inv"], tag="MC_Ints")
    d, f, n = run_table(ctx, "ints", config="std", per=20000)
    table_canary(ctx, d, "ints", _corrupt_ints_value)
    shutil.rmtree(d, ignore_errors=True)
    d, f, n = run_table(ctx, "ints", config="nostd", per=20000)
    finish_pure(ctx, "rows: value columns of every into-conversion (exhaustive for 8/16-bit and newtype sources, swept for wider "
                     "ones), every out-conversion of every value of each type to 12 primitives and the wider newtypes, Display "
                     "into a stack buffer for every value and parse of that text, parse of the string set of C04, Ord/Eq/min/max "
                     "on all pairs (U4, Channel), 128x128 (thorough) or boundary pairs, MIN/MAX/Default; judged by TLC against "
                     "the operators of MidiInts.tla.  distinct_nontrivial = distinct rows whose call succeeded, counted by the harness.")


# ----------------------------------------------------------------------------- C06 / C09

def c06(ctx):
    shortmsg_theorems(ctx)
    d, f, n = run_table(ctx, "factory", per=16384)
    table_canary(ctx, d, "factory", lambda rows, rng: _corrupt_at(rows, rng, lambda r: len(r) >= 35 and r[0] <= 49 and r[6] == 0, 8 + 14))
    finish_pure(ctx, "rows: every argument tuple of the 19 named constructors (thorough: complete - 4 x 2^18 three-argument "
                     "tuples, 16 x 16384 pitch bends, all positions / frames / songs; quick: boundary product + seeded random) "
                     "for RawShortMessage and StructuredShortMessage, the three generic constructors x all 23 types (panic "
                     "column), every test_util shorthand with primitive arguments including out-of-range ones; row = panic "
                     "flag + full accessor vector, judged against NamedBytes / Obs / Canon.  distinct_nontrivial = distinct rows whose call succeeded, counted by the harness.",
                exhaustive=True)


def _corrupt_at(rows, rng, pred, col):
    cand = [i for i, r in enumerate(rows) if pred(r)]
    if not cand:
        return None
    i = rng.choice(cand)
    rows[i][col] = (rows[i][col] + 1) % 128
    return i


def c09(ctx):
    run_mc_pure(ctx, "MC_PnMsg", {}, ["Inv"], tag="MC_PnMsg")
    d, f, n = run_table(ctx, "pnmsg", per=16384)
    table_canary(ctx, d, "pnmsg", lambda rows, rng: _corrupt_at(rows, rng, lambda r: len(r) == 27, 14 + rng.choice([1, 2, 4, 5, 7, 8])))
    finish_pure(ctx, "rows: 8 constructors x accessors x to_short_messages in both byte orders x both factories x the array "
                     "conversion.  Enumerated set (the full 10^10 product is NOT claimed): every third (thorough: every) number "
                     "x boundary values, all 128 / every fifth (thorough: every) 14-bit value x boundary numbers, all 16 "
                     "channels, plus 60k (thorough: 1M) seeded random points of the full product; the encoder is a product of "
                     "independent slices (number, value, channel, kind).  Judged against PnEncode.  "
                     "distinct_nontrivial = distinct rows whose call succeeded, counted by the harness.")


# ----------------------------------------------------------------------------- C19

def c19(ctx):
    run_mc_pure(ctx, "MC_PnMsg", {}, ["Inv"], tag="MC_PnMsg")      # PnValid / PnEncode theorems used by the judge
    d, f, n = run_table(ctx, "serde", config="serde", per=50000)
    # vacuity gate: every data format (way) accepted integers, composite values of each type, and round-tripped
    cl = ctx.row_classes["serde:serde"]
    need = ["int.form0", "int.primitive", "kind2", "kind3", "kind4", "kind5", "kind6", "kind8", "kind9", "kind12", "kind15"] \
        + ["int.form%d" % (10 + 10 * w) for w in (2, 3, 4, 5, 6)] + ["roundtrip.way%d" % w for w in (0, 2, 3, 6)]
    missing = [k for k in need if not cl.get(k)]
    if any(n.startswith("unlearnable representation") for n in ctx.notes):
        # a representation that cannot be taken apart field by field yields no patched inputs for its family;
        # the natural round trips (kind 7) are still demanded
        missing = [k for k in missing if not k.startswith("kind")]
    if missing and not any(p_ == "C19" for p_, c_, r_ in f):
        raise ToolError("vacuity gate (C19): nothing was ever accepted for %s" % missing)
    table_canary(ctx, d, "serde", lambda rows, rng: _corrupt_at(rows, rng, lambda r: r[0] == 0 and r[5] == 1 and r[2] == 0, 6))
    finish_pure(ctx, "rows (third build of the harness: features serde + serde_repr): each integer type from every JSON integer "
                     "0..65535, negatives, values above u16/u32/u63, floats, strings, arrays (serde_json::from_value) and through "
                     "serde's primitive value deserializers; RawShortMessage from [s,d1,d2] over boundary bytes; ControlChange14Bit"
                     "Message and ParameterNumberMessage from every combination of boundary field values; StructuredShortMessage from "
                     "its natural representation for all 23 variants with in- and out-of-range fields; ShortMessageType -2..300; the "
                     "natural representation (to_value) of valid values of every type deserialized and compared.  After a successful "
                     "deserialization the panicking accessors are called.  Judged by TLC: ok => Valid, Valid => ok and equal.  "
                     "distinct_nontrivial = distinct rows whose call succeeded, counted by the harness.")


def replay(ctx, path):
    """Re-judges the rows stored in a table replay file against the CURRENT code: the inputs of
    each stored row are re-run through the harness."""
    info = json.load(open(path))
    table, config = info["table"], info.get("config", "std")
    if table in ("ints", "serde", "first", "misc"):
        # these tables are cheap and their rows are not individually addressable: re-run the table
        d, findings, n = run_table(ctx, table, config=config, tier="quick", per=20000)
        bad = sorted({c for p_, c, r in findings if p_ == ctx.prop})
        for c in bad[:5]:
            print("VIOLATION property=%s replay=%s  (clause %s)" % (ctx.prop, path, c))
        return 1 if bad else 0
    d = ctx.work.fresh("replay_", "d")
    spec = ";".join(",".join(str(x) for x in r) for r in info["rows"])
    rowsfile = ctx.work.fresh("replayrows_", "txt")
    open(rowsfile, "w").write(spec)
    out, dt = harness(config, ["table", table, d, "rows:" + rowsfile, "0", "8192"])
    n = json.loads(out.strip().splitlines()[-1])
    cfg = "SPECIFICATION Spec\nCONSTANTS\n  K = %d\n  Table = \"%s\"\nCHECK_DEADLOCK FALSE\n" % (n["chunks"], table)
    res = tlc(ctx.work, "Tables", cfg, env={"TABLEDIR": d}, workers=1, timeout=600, tag="replay")
    bad = [t for t in res.of("ROWBAD") if t[1] == ctx.prop]
    for t in bad[:5]:
        print("VIOLATION property=%s replay=%s  (clause %s)" % (ctx.prop, path, t[2]))
    return 1 if bad else 0


PROPS = {"C01": c01, "C02": c02, "C03": c03, "C04": c04, "C05": c05, "C06": c06, "C09": c09, "C19": c19}
