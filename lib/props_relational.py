"""C12, C15, C16 (scanner part), C17: environment-generated and relational (twin-run) checks."""
import json

import gen
from scanners import *  # noqa
from common import ToolError, tlc, tlc_text, log, read_ndjson
from props_scanners import vacuity


# ----------------------------------------------------------------------------- C12

def sender_constants(chans, v, to, emitting, maxn=0):
    cap = 2 if to in (0, -1) else to
    return {"Chans": setfmt(chans), "V": setfmt(v), "TOc": str(999 if to < 0 else to), "CAP": str(cap),
            "Emitting": "TRUE" if emitting else "FALSE", "MaxN": str(maxn)}


def generate_sentences(ctx, chans, to, num, depth, seed):
    """TLC is the generator: `-simulate` over the sender grammar with the full value domain."""
    consts = sender_constants(chans, list(range(128)), to, True, depth - 1)
    cfg = "SPECIFICATION Spec\nCONSTANTS\n" + "".join("  %s = %s\n" % kv for kv in consts.items())
    cfg += "INVARIANT Dump\nCHECK_DEADLOCK FALSE\n"
    res = tlc(ctx.work, "MC_Sender", cfg, workers=1, timeout=900, tag="gen",
              extra=["-simulate", "num=%d" % num, "-depth", str(depth), "-seed", str(seed)])
    if res.errors:
        raise ToolError("sentence generation failed:\n" + tlc_text(res))
    sents = []
    seen = set()
    for t in res.of("SENT"):
        h = json.loads(t[1])
        key = json.dumps(h[:-1])[:4000]
        if key in seen:
            continue          # same behaviour up to the last step: keep one
        seen.add(key)
        sents.append(h)
    if not sents:
        raise ToolError("sentence generation produced nothing:\n" + tlc_text(res))
    return sents


def sentence_script(sent, to, iid=1):
    rows = [{"op": "new", "id": iid, "k": "poll", "to": to}]
    for e in sent:
        if e["op"] == "feed":
            rows.append({"op": "feed", "id": iid, "m": e["m"], "exp": e["exp"]})
        elif e["op"] == "poll":
            rows.append({"op": "poll", "id": iid, "ch": e["ch"], "exp": e["exp"]})
        elif e["op"] == "tick":
            rows.append({"op": "tick", "id": iid, "dt": e["dt"]})
    return rows


def exhaustive_sentences(ctx, to, depth, max_paths):
    """C12, bounded-exhaustive part: TLC prints the complete transition graph of Sender || scanner (finite,
    VIEW with saturated ages); every path of that graph is a sentence of the documented grammar together
    with the intended reports.  All paths 'number selection, then `depth` further feeds / polls / ticks'
    are replayed into the real scanner (pruned at random only if there are more than max_paths)."""
    consts = sender_constants([0], [0, 127], to, False)
    cfg = "SPECIFICATION Spec\nCONSTANTS\n" + "".join("  %s = %s\n" % kv for kv in consts.items())
    cfg += "VIEW View\nACTION_CONSTRAINT EmitEdge\nCHECK_DEADLOCK FALSE\n"
    res = tlc(ctx.work, "MC_Sender", cfg, workers=1, timeout=1500, tag="graph")
    if not res.ok or res.errors:
        raise ToolError("graph dump of MC_Sender failed:\n" + tlc_text(res))
    adj = {}
    first = None
    for t in res.of("EDGE"):
        o = json.loads(t[1])
        pk = json.dumps(o["p"], sort_keys=True)
        qk = json.dumps(o["q"], sort_keys=True)
        if first is None:
            first = pk
        adj.setdefault(pk, {})[json.dumps(o["e"], sort_keys=True)] = qk
    number = lambda e: e["op"] == "feed" and e["m"][0] // 16 == 11 and e["m"][1] in (98, 99, 100, 101)
    unit = lambda e: (e["op"] == "feed" and e["m"][0] // 16 == 11 and e["m"][1] in (6, 38, 96, 97)) or e["op"] in ("poll", "tick")
    # every way to select a number from the initial state
    starts = []
    for e1, q1 in adj[first].items():
        if number(json.loads(e1)):
            for e2, q2 in adj.get(q1, {}).items():
                if number(json.loads(e2)):
                    starts.append(([json.loads(e1), json.loads(e2)], q2))
    paths = []

    def dfs(node, evs, left):
        paths.append(list(evs))
        if left == 0:
            return
        for ek, q in adj.get(node, {}).items():
            e = json.loads(ek)
            if unit(e):
                evs.append(e)
                dfs(q, evs, left - 1)
                evs.pop()

    for evs, node in starts:
        dfs(node, list(evs), depth)
    total = len(paths)
    # keep maximal paths only (every prefix is replayed as part of a longer path)
    maximal = [p for p in paths if len(p) == 2 + depth]
    pruned = False
    if len(maximal) > max_paths:
        maximal = ctx.rng.sample(maximal, max_paths)
        pruned = True
    rows = []
    for pth in maximal:
        rows += sentence_script(pth, to)
    ctx.extra = getattr(ctx, "extra", {})
    ctx.extra.setdefault("bounded_exhaustive_sentences", []).append(
        {"timeout": to, "steps_after_selection": depth, "selections": len(starts), "paths_in_graph": total,
         "maximal_paths_replayed": len(maximal), "pruned_at_random": pruned})
    log("exhaustive sentences to=%s depth=%d: %d selections, %d maximal paths (%s)" % (
        to, depth, len(starts), len(maximal), "pruned" if pruned else "complete"))
    return rows


def c12(ctx):
    for to in (0, 2, -1):
        run_mc(ctx, "MC_Sender", sender_constants([0], [0, 1, 127] if ctx.quick else [0, 1, 64, 127], to, False),
               ["P_C12"], ["I_Sync"], workers=8, tag="MC_Sender_to%s" % to)
    mc_poll(ctx, timeouts=(0, 2))          # I_C12enc: encode, wait, poll from every reachable state
    if not ctx.quick:
        run_apalache(ctx, "Ind_Poll", theorem="RtInv")     # encode-wait-poll for ALL messages, orders, timeouts
        # growth: end-to-end composition senders -> wire (+ real-time messages anywhere) -> three scanners,
        # safety (reported = sent) and liveness (every message sent is eventually reported) under fairness
        run_mc(ctx, "MC_MidiSystem", {"Chans": "{0, 1}", "V7": "{0, 127}", "V14": "{1, 16383}", "Cns14": "{1}",
                                      "TOc": "2", "CAP": "2", "MaxSend": "2", "MaxRt": "1",
                                      "Orders": '{"msb", "lsb"}', "Emitting": "FALSE", "MaxN": "0"},
               ["L_Reported", "L_Pending"], ["I_E2E_Cc14", "I_E2E_Poll", "I_E2E_Pn"], view=None, workers=14,
               timeout=3000, tag="MC_MidiSystem")
        run_mc(ctx, "MC_MidiSystem", {"Chans": "{0, 1}", "V7": "{0, 127}", "V14": "{1, 16383}", "Cns14": "{1}",
                                      "TOc": "2", "CAP": "2", "MaxSend": "2", "MaxRt": "1", "Orders": '{"lsb"}',
                                      "Emitting": "FALSE", "MaxN": "0"},
               ["L_Reported"], ["I_E2E_Cc14", "I_E2E_Poll", "I_E2E_Pn"], view=None, workers=14,
               timeout=3000, tag="MC_MidiSystem_lsb")
    pp = edges_poll(ctx, timeouts=(0, 2), impls=("raw",))
    run_script(ctx, sweep_roundtrip(ctx, variant_paths(pp[0]), "poll", 0, 800)
               + sweep_roundtrip(ctx, variant_paths(pp[2]), "poll", 2, 800), "roundtrip-in-every-explored-state")
    rows = []
    nsent = 0
    plans = [([ctx.rng.randrange(16)], 0), ([ctx.rng.randrange(16)], 5), (ctx.rng.sample(range(16), 2), 1),
             (ctx.rng.sample(range(16), 3), 5), (list(range(16)), 5), (list(range(16)), 0),
             ([ctx.rng.randrange(16)], -1)]        # Duration::MAX: nothing is ever overdue, every poll is early
    if not ctx.quick:
        plans = plans * 6
    for i, (chans, to) in enumerate(plans):
        sents = generate_sentences(ctx, sorted(chans), to, ctx.q(12, 40), ctx.q(300, 600), ctx.seed * 100 + i)
        for s in sents:
            rows += sentence_script(s, to)
            nsent += 1
        if len(ctx.samples) < 2:
            ctx.samples.append({"generated_sentence_prefix": sents[0][:12], "channels": sorted(chans), "timeout": to})
    res, trace = run_script(ctx, rows, "sender-sentences")
    rows = exhaustive_sentences(ctx, 2, ctx.q(3, 4), ctx.q(40000, 400000)) + exhaustive_sentences(ctx, 0, ctx.q(3, 4), ctx.q(20000, 200000))
    run_script(ctx, rows, "bounded-exhaustive-sentences")
    system_behaviour_battery(ctx)
    run_script(ctx, gen.roundtrip_poll(ctx.rng, ctx.q(4000, 40000)), "encode-wait-poll")
    run_script(ctx, gen.sweep_pn_values(ctx.rng, "poll", step=ctx.q(3, 1), to=ctx.rng.choice([0, 1, 5])), "value-sweep-poll")
    long_run_battery(ctx, ["poll"])
    far_time_battery(ctx, twins=False)
    real_clock_run(ctx)
    canary(ctx, trace, lambda rows_, rng: _corrupt_exp(rows_, rng))
    vacuity(ctx, ["exp", "grp.rtp", "poll.late.pending", "poll.early.pending"])
    ctx.extra = getattr(ctx, "extra", {})
    ctx.extra["sentences_generated_by_tlc"] = nsent
    ctx.rule = ("design: Sender (documented grammar, with early/late poll placement, time steps, non-contributing "
                "messages) || polling-scanner machine to a fixpoint for timeouts {0,2,Inf}: reported = intended on "
                "every step; 'encode, wait, poll' invariant in every reachable machine state; code: sentences "
                "GENERATED BY TLC (-simulate, full value domain, 1-16 interleaved channels, timeouts {0,1,5}) "
                "replayed into the real scanner with the mock clock and compared with the intended reports by TLC; "
                "ALL sentences 'selection + k further feeds/polls/ticks' (k = 3, thorough 4) from the complete transition "
                "graph of the composition; real encodings in both byte orders + wait + poll after random prior traffic. "
                "Non-trivial = distinct (call, reports) pairs with a report.")


def _corrupt_exp(rows, rng):
    cand = [i for i, r in enumerate(rows) if r.get("exp") and r.get("out")]
    if not cand:
        return None
    i = rng.choice(cand)
    rows[i]["out"][0][2] = (rows[i]["out"][0][2] + 1) % 128
    return i


# ----------------------------------------------------------------------------- C15

def iso_constants(kind, chans, to):
    cns = {"cc14": [0, 1, 31, 32, 33, 63, 64], "pn": [6, 38, 96, 98, 99, 101, 7], "poll": [6, 38, 96, 98, 99, 101, 7]}[kind]
    return {"Kind": '"%s"' % kind, "Chans": setfmt(chans), "V": "{0, 127}", "Cns": setfmt(cns),
            "TOc": str(999 if to < 0 else to), "CAP": "2"}


def pair_battery(ctx, kind, to, per_pair):
    """Every ordered pair (a, b) of the 16 channels: an interleaved stream on exactly these two
    channels, against per-channel scanners."""
    rows = []
    for a in range(16):
        for b in range(16):
            if a != b:
                rows += gen.twin_isolation(ctx.rng, kind, per_pair, chans=[a, b], to=to, base_id=100)
    return rows


def system_sweep(ctx, paths_file, kind, to, max_states):
    """Every system status byte, with data bytes that look like contributing controllers, in
    every reachable specification state."""
    rows = []
    for st in load_paths(paths_file, ctx, max_states):
        ch = ctx.rng.randrange(16)
        rows.append({"op": "new", "id": 1, "k": kind, "to": to})
        for op in st["path"]:
            rows.append(retarget(op, 1, 0, ch))
        contributing = gen.PN_CNS if kind != "cc14" else [0, 1, 31, 32, 33, 63]
        rows.append({"op": "copy", "id": 1, "to2": 2})        # the same state without the system messages
        for s in range(240, 256):
            rows.append({"op": "feed", "id": 1, "m": [s, ctx.rng.choice(contributing), gen.rval(ctx.rng)],
                         "f": gen.impl(ctx.rng)})
        # "never affect any channel": what is reported afterwards is what the untouched copy reports
        post = [[176 + ch, 33, 5], [176 + ch, 1, 7], [176 + ch, 33, 9]] if kind == "cc14" else \
            [[176 + ch, 6, 42], [176 + ch, 38, 43], [176 + ch, 96, 1], [176 + ch, 6, 44]]
        for m in post:
            rows.append({"op": "feed", "id": 1, "m": m})
            rows.append({"op": "feed", "id": 2, "m": m, "tw": 1, "twp": "C15"})
        if kind == "poll":
            rows.append({"op": "tick", "id": -1, "dt": to + 1})
            rows.append({"op": "poll", "id": 1, "ch": ch})
            rows.append({"op": "poll", "id": 2, "ch": ch, "tw": 1, "twp": "C15"})
    return rows


def c15(ctx):
    for kind in ("cc14", "pn", "poll"):
        run_mc(ctx, "MC_Iso", iso_constants(kind, [0, 1], 2), ["P_C15"], [], workers=12, tag="MC_Iso_" + kind,
               allow_dead=() if kind == "poll" else ("PollA", "TickA"))
    p14 = edges_cc14(ctx, impls=("raw",))
    ppn = edges_pn(ctx, impls=("raw",))
    ppoll = edges_poll(ctx, timeouts=(2,), impls=("raw",))[2]
    rows = []
    for kind, to in (("cc14", 0), ("pn", 0), ("poll", 0), ("poll", 5)):
        for _ in range(ctx.q(3, 20)):
            rows += gen.twin_isolation(ctx.rng, kind, ctx.q(1500, 4000), to=to)
        rows += pair_battery(ctx, kind, to, ctx.q(40, 150))
        rows += gen.interference_battery(ctx.rng, kind, to, ctx.q(6, 40))
        rows += gen.saturation_battery(ctx.rng, kind, to, base_id=3000)
    res, trace = run_script(ctx, rows, "twin-projection")
    rows = system_sweep(ctx, p14, "cc14", 0, 200) + system_sweep(ctx, ppn, "pn", 0, 200) \
        + system_sweep(ctx, ppoll, "poll", 2, ctx.q(150, 1000))
    run_script(ctx, rows, "system-messages-in-every-state")
    long_run_battery(ctx, ["cc14", "pn", "poll"])
    far_time_battery(ctx)
    measured_clock_run(ctx)
    canary(ctx, trace, lambda rows_, rng: _corrupt_twin(rows_, rng, "C15"))
    vacuity(ctx, ["twin.C15", "feed.system", "feed.cc14.report", "feed.pn.report", "feed.poll.report", "poll.report"])
    ctx.rule = ("design: two-channel product of each machine to a fixpoint (other channel unchanged, reports carry "
                "the trigger's channel, channel-less messages are no-ops); code: one trace holds the interleaved "
                "stream on one scanner and every channel's projection (its feeds and polls, all ticks) on a scanner "
                "of its own, TLC requires equal reports event by event - for seeded random 16-channel streams and "
                "for EVERY ordered pair of the 16 channels, all three scanners; every system status byte in every "
                "reachable specification state. Non-trivial = distinct (call, reports) pairs with a report.")


def _corrupt_twin(rows, rng, prop):
    cand = [i for i, r in enumerate(rows) if r.get("tw") and r.get("twp") == prop and r.get("out")]
    if not cand:
        return None
    i = rng.choice(cand)
    rows[i]["out"][0][2] = (rows[i]["out"][0][2] + 1) % 128
    return i


# ----------------------------------------------------------------------------- C16 (scanner part) / C17

def c16_scanners(ctx):
    mc_cc14(ctx)
    mc_pn(ctx, with_run=False)
    mc_poll(ctx, timeouts=(2,))
    p14 = edges_cc14(ctx, impls=("raw",))
    ppn = edges_pn(ctx, impls=("raw",))
    ppoll = edges_poll(ctx, timeouts=(2,), impls=("raw",))[2]
    per = ctx.q(40, 400)
    rows = sweep_transparent(ctx, p14, "cc14", 0, per, 200) + sweep_transparent(ctx, ppn, "pn", 0, per, 200) \
        + sweep_transparent(ctx, ppoll, "poll", 2, per, ctx.q(150, 1000))
    res, trace = run_script(ctx, rows, "noncontributing-in-every-state")
    rows = []
    for kind, to in (("cc14", 0), ("pn", 0), ("poll", 0), ("poll", 5)):
        for _ in range(ctx.q(4, 30)):
            rows += gen.twin_transparency(ctx.rng, kind, ctx.q(1200, 4000), to=to)
    run_script(ctx, rows, "twin-insertion")
    long_run_battery(ctx, ["cc14", "pn", "poll"])
    canary(ctx, trace, corrupt_field("eqp", False, lambda r: r["op"] == "feed" and r["m"][0] // 16 != 11 and r["m"][0] < 240))
    vacuity(ctx, ["feed.noncontrib", "twin.C16"])


def c17(ctx):
    mc_cc14(ctx)
    mc_pn(ctx, with_run=False)
    mc_poll(ctx)
    p14 = edges_cc14(ctx, impls=("raw",))
    ppn = edges_pn(ctx, impls=("raw",))
    pp = edges_poll(ctx, timeouts=(0, 2), impls=("raw",))
    # (the access paths of every node of the lock-step exploration: hidden implementation state included)
    rows = sweep_reset(ctx, variant_paths(p14), "cc14", 0, 300) + sweep_reset(ctx, variant_paths(ppn), "pn", 0, 300) \
        + sweep_reset(ctx, variant_paths(pp[0]), "poll", 0, ctx.q(200, 1000)) + sweep_reset(ctx, variant_paths(pp[2]), "poll", 2, ctx.q(200, 1000))
    res, trace = run_script(ctx, rows, "reset-in-every-state")
    rows = []
    for kind, to in (("cc14", 0), ("pn", 0), ("poll", 0), ("poll", 5), ("poll", -1)):
        rows += gen.twin_reset(ctx.rng, kind, ctx.q(150, 1500), to=to)
    run_script(ctx, rows, "twin-reset-copy")
    rows = gen.reset_after_selection(ctx.rng, "cc14", 0, 1) + gen.reset_after_selection(ctx.rng, "pn", 0, ctx.q(8, 1)) \
        + gen.reset_after_selection(ctx.rng, "poll", ctx.rng.choice([0, 5]), ctx.q(8, 1))
    run_script(ctx, rows, "reset-after-concrete-values")
    rows = gen.reset_after_histories(ctx.rng, "cc14", 0, depth=ctx.q(4, 5)) + gen.reset_after_histories(ctx.rng, "pn", 0, depth=ctx.q(4, 5)) \
        + gen.reset_after_histories(ctx.rng, "poll", ctx.rng.choice([0, 5]), depth=ctx.q(4, 5))
    run_script(ctx, rows, "reset-after-every-short-history")
    rows = []
    i = 0
    for kind in ("cc14", "pn", "poll"):      # new() == default()
        for via in ("new", "default"):
            i += 1
            rows.append({"op": "new", "id": i, "k": kind, "to": 0, "via": via})
    run_script(ctx, rows, "new-default")
    rows = gen.copy_battery(ctx.rng, "cc14", 0) + gen.copy_battery(ctx.rng, "pn", 0)
    for to in (0, 1, 5, -1):
        rows += gen.copy_battery(ctx.rng, "poll", to)
    run_script(ctx, rows, "copies-by-clone-and-by-copy")
    long_run_battery(ctx, ["cc14", "pn", "poll"])
    canary(ctx, trace, corrupt_field("eqn", False, lambda r: r["op"] == "reset"))
    vacuity(ctx, ["twin.C17", "reset.cc14", "reset.pn", "reset.poll", "copy", "eq"])
    ctx.rule = ("design: Reset establishes Init in every reachable state (TLC, all three machines); code: in every "
                "reachable specification state (reached by its access path) reset(), then == new(same timeout) "
                "through the public PartialEq, then a seeded suffix fed to the reset scanner and to a new one must "
                "report the same (TLC compares); random prefixes likewise; copies evolve identically and "
                "independently; new() == default(). Timeouts {0, 2/5 ms, MAX}. "
                "Non-trivial = distinct (call, reports) pairs with a report.")


def c16(ctx):
    import props_pure
    c16_scanners(ctx)
    d, f, n = props_pure.run_table(ctx, "types")
    ctx.rule = ("design: action property 'non-contributing or channel-less input => state unchanged and no report' on "
                "the three machines (TLC fixpoints); code: in every reachable specification state (reached on a real "
                "scanner by its access path) seeded non-contributing messages - all non-contributing controller numbers, "
                "every non-CC channel status byte and every system status byte with data bytes that look like contributing "
                "controllers - must report nothing and leave the scanner == its copy (public PartialEq); twin runs with the "
                "non-contributing messages removed must report the same; the four ControllerNumber predicates and the "
                "controller-number constants are judged by TLC for all 128 numbers. "
                "Non-trivial = distinct (call, reports) pairs with a report + predicate rows.")


def c18(ctx):
    """Real-time safety: every API call made by the drivers below runs inside an allocation-counting
    region and under catch_unwind; TLC judges `panicked <=> documented panic` and `allocs = 0`."""
    import props_pure
    rows = gen.random_plain(ctx.rng, "cc14", ctx.q(30000, 300000)) + gen.random_plain(ctx.rng, "pn", ctx.q(30000, 300000), first_id=2) \
        + gen.random_poll(ctx.rng, ctx.q(40000, 400000), first_id=3) + gen.roundtrip_cc14(ctx.rng, ctx.q(2000, 20000), first_id=4) \
        + gen.roundtrip_pn(ctx.rng, ctx.q(2000, 20000), first_id=5) + gen.roundtrip_poll(ctx.rng, ctx.q(2000, 20000), first_id=6)
    res, trace = run_script(ctx, rows, "all-scanner-drivers")
    canary(ctx, trace, corrupt_field("al", 1, lambda r: r["op"] == "feed"))
    p14 = edges_cc14(ctx, impls=("raw", "str"))
    ppn = edges_pn(ctx, impls=("raw", "str"))
    pp = edges_poll(ctx, timeouts=(0, 2), impls=("raw",))
    bad = [r for r in ctx.edge_reports if r["allocs"] or r["panics"]]
    rows = sweep_reset(ctx, p14, "cc14", 0, 200) + sweep_reset(ctx, ppn, "pn", 0, 200) + sweep_reset(ctx, pp[2], "poll", 2, ctx.q(150, 1000)) \
        + sweep_transparent(ctx, p14, "cc14", 0, 10, 200) + sweep_transparent(ctx, ppn, "pn", 0, 10, 200)
    run_script(ctx, rows, "calls-in-every-specification-state")
    long_run_battery(ctx, ["cc14", "pn", "poll"])
    far_time_battery(ctx)
    real_clock_run(ctx)
    measured_clock_run(ctx)
    nostd_run(ctx, "cc14", ctx.q(10000, 100000))
    nostd_run(ctx, "pn", ctx.q(10000, 100000))
    if bad and not ctx.viol:
        raise ToolError("edge replay saw allocations/panics (%s) that no recorded trace reproduces" % bad[:2])
    for t, per in (("short", 8192), ("structured", 8192), ("types", 8192), ("factory", 16384), ("ints", 20000), ("pnmsg", 16384)):
        d, f, n = props_pure.run_table(ctx, t, per=per)
        import shutil
        shutil.rmtree(d, ignore_errors=True)
    ctx.distinct = None
    ctx.rule = ("every API call of the drivers of the other checks (random histories of the three scanners, encoder round trips, "
                "every TLC edge, calls in every reachable specification state, and the exhaustive/swept tables of short messages, "
                "structured values, factories, integer types and (N)RPN messages) is executed inside a counting global-allocator "
                "region and under catch_unwind in a build with opt-level 0; TLC judges `panicked <=> PanicExpected(op, args)` and "
                "`allocs = 0` on every event and row.  Non-trivial = distinct (call, reports) pairs with a report; evaluations = "
                "events + edges + rows.")
    ctx.assumptions = ["allocation is observed at run time (counting GlobalAlloc, thread-local region); TLA+ contributes the definition "
                       "of the documented panics and the coverage of paths, not a proof of absence of allocation"]


PROPS = {"C12": c12, "C15": c15, "C16": c16, "C17": c17, "C18": c18}
