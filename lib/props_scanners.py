"""One function per scanner property.  Each returns nothing; it fills the Ctx."""
import gen
from scanners import *  # noqa
from common import read_ndjson


def c08(ctx):
    mc_cc14(ctx)
    if not ctx.quick:
        run_apalache(ctx, "Ind_Cc14")
    edges_cc14(ctx)
    res, trace = run_script(ctx, gen.random_plain(ctx.rng, "cc14", ctx.q(60000, 500000)), "random-cc14")
    # the same monitor in its literal, history form (backward scans over the recorded trace)
    run_script(ctx, gen.random_plain(ctx.rng, "cc14", ctx.q(15000, 100000), seg=300, bursts=False), "random-cc14-history",
               history=True)
    run_script(ctx, gen.sweep_cc14_values(ctx.rng, step=ctx.q(2, 1)), "value-sweep-cc14")
    long_run_battery(ctx, ["cc14"])
    run_script(ctx, gen.extreme_values(ctx.rng, "cc14", ctx.q(8000, 80000)), "extreme-values-cc14")
    nostd_run(ctx, "cc14", ctx.q(15000, 150000))
    system_behaviour_battery(ctx)
    # twin-free canary: corrupt one reported value / fabricate one report
    canary(ctx, trace, corrupt_out("cc14", op=("feed",), need_report=ctx.rng.random() < 0.5))
    ctx.rule = ("design: TLC fixpoint of machine x C08-monitor (all 128 controller numbers, abstract values, "
                "22 other message types, reset); code: every TLC edge executed on the real scanner on all 16 "
                "channels through 3 ShortMessage implementations, plus seeded random histories over the full "
                "alphabet judged by TLC (ghost and backward-scan form of the monitor); long runs (one call repeated up to "
                "2^16+1 times between partial progress and completion), extreme-value histories, and the same drivers "
                "against the build without std. Non-trivial = distinct "
                "(input, reports) pairs with a non-empty report, plus spec edges whose expected report is non-empty.")


def enc14_table(ctx):
    """C07 encoder half as events: constructor panic for all 128 controller numbers, accessors and
    both factories for all (channel, controller) pairs x boundary values (+ a full value sweep
    for seeded pairs)."""
    rows = [{"op": "new", "id": 1, "k": "cc14", "to": 0}]
    vals = [0, 1, 127, 128, 129, 255, 256, 8191, 8192, 16255, 16256, 16382, 16383]
    for cn in range(128):
        rows.append({"op": "enc14", "id": 1, "msg": [ctx.rng.randrange(16), cn, ctx.rng.choice(vals)],
                     "fac": ctx.rng.choice(["raw", "str"])})
    for ch in range(16):
        for cn in range(32):
            for v in (vals if not ctx.quick else ctx.rng.sample(vals, 4) + [16383]):
                rows.append({"op": "enc14", "id": 1, "msg": [ch, cn, v], "fac": ctx.rng.choice(["raw", "str"])})
    for _ in range(ctx.q(2, 16)):
        ch, cn = ctx.rng.randrange(16), ctx.rng.randrange(32)
        step = ctx.q(7, 1)
        for v in range(ctx.rng.randrange(step), 16384, step):
            rows.append({"op": "enc14", "id": 1, "msg": [ch, cn, v], "fac": "raw"})
    return rows


def c07(ctx):
    mc_cc14(ctx)
    if not ctx.quick:
        run_apalache(ctx, "Ind_Cc14", theorem="RtInv")     # round trip for ALL messages in ALL consistent states
    p14 = edges_cc14(ctx, impls=("raw",))
    run_script(ctx, sweep_roundtrip(ctx, variant_paths(p14), "cc14", 0, 1500), "roundtrip-in-every-explored-state")
    run_script(ctx, enc14_table(ctx), "encode-table-cc14")
    res, trace = run_script(ctx, gen.roundtrip_cc14(ctx.rng, ctx.q(6000, 60000)), "roundtrip-cc14")
    rows = []
    for _ in range(ctx.q(1, 6)):
        rows += gen.sweep_cc14_values(ctx.rng, step=1)         # all 16384 (high, low) pairs
    run_script(ctx, rows, "value-sweep-cc14")
    long_run_battery(ctx, ["cc14"])
    nostd_run(ctx, "cc14", ctx.q(6000, 60000))
    canary(ctx, trace, corrupt_field("bytes", [[176, 0, 0], [176, 32, 1]],
                                     lambda r: r["op"] == "enc14" and not r["pan"]))
    canary(ctx, trace, lambda rows, rng: _corrupt_group_out(rows, rng, "rt14"))
    ctx.rule = ("encoder: every enc event is one real ControlChange14BitMessage::new + to_short_messages call "
                "judged against Cc14Encode / Cc14NewPanics (all 128 controller numbers for the panic, all 16x32 "
                "(channel, controller) pairs x boundary values, full value sweeps for seeded pairs); scanner: "
                "state invariant I_C07 in every reachable machine state (TLC), complete-edge replay, and the real "
                "encoding fed to a real scanner after random prior traffic, after long runs of one repeated call, on "
                "scanners made by new() and by default(), with and without std. Non-trivial = distinct messages "
                "round-tripped or encoded.")


def _corrupt_group_out(rows, rng, kind):
    cand = [i for i, r in enumerate(rows) if r.get("grp", {}).get("k") == kind and r["grp"]["i"] == r["grp"]["n"]
            and r.get("out")]
    if not cand:
        return None
    i = rng.choice(cand)
    rows[i]["out"][0][2] = (rows[i]["out"][0][2] + 1) % 128
    return i


def c11(ctx):
    mc_pn(ctx, with_run=False)
    if not ctx.quick:
        run_apalache(ctx, "Ind_Pn")
    edges_pn(ctx)
    res, trace = run_script(ctx, gen.random_plain(ctx.rng, "pn", ctx.q(60000, 500000)), "random-pn")
    run_script(ctx, gen.random_plain(ctx.rng, "pn", ctx.q(12000, 80000), seg=250, bursts=False), "random-pn-history",
               history=True)
    run_script(ctx, gen.sweep_pn_values(ctx.rng, "pn", step=ctx.q(3, 1)), "value-sweep-pn")
    long_run_battery(ctx, ["pn"])
    run_script(ctx, gen.extreme_values(ctx.rng, "pn", ctx.q(8000, 80000)), "extreme-values-pn")
    nostd_run(ctx, "pn", ctx.q(15000, 150000))
    system_behaviour_battery(ctx)
    canary(ctx, trace, corrupt_out("pn", op=("feed",), need_report=ctx.rng.random() < 0.5))
    ctx.rule = ("design: TLC fixpoint of machine x C11-monitor (all 8 contributing controllers + 11 others, "
                "abstract values, other message types, reset); code: every TLC edge on all 16 channels x 3 "
                "implementations, seeded random full-alphabet histories judged by TLC (ghost and backward-scan "
                "form), long runs, extreme-value histories, the build without std. "
                "Non-trivial = distinct (input, reports) pairs with a report + reporting spec edges.")


def c10(ctx):
    mc_pn(ctx, with_run=True)
    if not ctx.quick:
        run_apalache(ctx, "Ind_Pn", theorem="RtInv")
    ppn = edges_pn(ctx, impls=("raw",))
    run_script(ctx, sweep_roundtrip(ctx, variant_paths(ppn), "pn", 0, 1500), "roundtrip-in-every-explored-state")
    res, trace = run_script(ctx, gen.roundtrip_pn(ctx.rng, ctx.q(6000, 60000)), "roundtrip-pn")
    run_script(ctx, gen.sweep_pn_values(ctx.rng, "pn", step=1), "value-sweep-pn")     # every parameter number, every 14-bit value
    long_run_battery(ctx, ["pn"])
    nostd_run(ctx, "pn", ctx.q(6000, 60000))
    canary(ctx, trace, lambda rows, rng: _corrupt_group_out(rows, rng, ctx.rng.choice(["rtpn", "run"])))
    ctx.rule = ("design: invariants I_C10 / I_C10run hold in every reachable machine state (TLC): every abstract "
                "message's LSB-first encoding and the running forms (3 repetitions) are inverted; code: complete "
                "edge replay, and real encodings + running forms of seeded length fed to the real scanner after "
                "random prior traffic (full value domain, traffic on other channels interleaved), after long runs of one "
                "repeated call, with and without std. Non-trivial = distinct messages round-tripped.")


def random_poll_traces(ctx, n):
    r = run_script(ctx, gen.random_poll(ctx.rng, n), "random-poll")
    # the same clauses with the monitor state defined DECLARATIVELY over the recorded history
    # ("the most recent controller-6 byte", "a poll after its deadline has happened since", ...)
    run_script(ctx, gen.random_poll(ctx.rng, ctx.q(8000, 50000), seg=200, bursts=False), "random-poll-history",
               history=True)
    return r


def c13(ctx):
    mc_poll(ctx)
    if not ctx.quick:
        run_apalache(ctx, "Ind_Poll", witness="NoPendingMsb")
    edges_poll(ctx)
    res, trace = random_poll_traces(ctx, ctx.q(60000, 500000))
    rows = []
    for i in range(ctx.q(12, 80)):
        to = [1, 5, 0, -1, 5, 1][i % 6]
        rows += gen.twin_early_polls(ctx.rng, ctx.q(500, 1500), to, base_id=400)
        rows += gen.twin_time(ctx.rng, ctx.q(300, 1000), to, base_id=500)
    run_script(ctx, rows, "twin-early-polls+time")
    rows = []
    for i, to in enumerate((1, 5, 1000)):
        rows += gen.sweep_pn_values(ctx.rng, "poll", step=ctx.q(16, 2), to=to, first_id=600 + i, sweeps=not ctx.quick or to == 5)
    run_script(ctx, rows, "special-numbers-early-and-late-polls")
    long_run_battery(ctx, ["poll"])
    far_time_battery(ctx)
    real_clock_run(ctx)
    measured_clock_run(ctx)
    canary(ctx, trace, corrupt_out("poll", op=("poll",), need_report=ctx.rng.random() < 0.5))
    need = ["poll.early.pending", "poll.late.pending", "poll.late.lsb", "poll.early.flag", "twin.C13", "C13l"]
    vacuity(ctx, need)
    ctx.rule = ("design: TLC fixpoint of machine x C13/C14-monitor with explicit time for timeouts {0, 2, Inf}; "
                "code: every TLC edge (feeds, polls, ticks, resets) on all 16 channels x 3 implementations for each "
                "timeout with the mock clock; seeded random histories (ticks below/at/above the timeout, "
                "timeouts {0,1,5 ms,MAX}); twin runs (early polls skipped; different passage of time); long runs; clock "
                "readings at which 16/32/64-bit counts of ns/us/ms wrap; the production configuration (real Instant) "
                "with timeouts 0, MAX, 2^40..2^63 s and with finite timeouts where real time can only confirm the script. "
                "Non-trivial = distinct (call, reports) pairs with a report + reporting spec edges.")


def vacuity(ctx, keys):
    missing = [k for k in keys if not ctx.stats.get(k)]
    if missing:
        raise ToolError("vacuity gate: monitor antecedents never exercised: %s" % missing)


def c14(ctx):
    mc_poll(ctx)
    if not ctx.quick:
        run_apalache(ctx, "Ind_Poll", witness="NoFvc")
    edges_poll(ctx)
    res, trace = random_poll_traces(ctx, ctx.q(80000, 600000))
    run_script(ctx, gen.sweep_pn_values(ctx.rng, "poll", step=ctx.q(5, 1), to=ctx.rng.choice([0, 1, 5])), "value-sweep-poll")
    long_run_battery(ctx, ["poll"])
    far_time_battery(ctx)
    run_script(ctx, gen.extreme_values(ctx.rng, "poll", ctx.q(8000, 80000), to=ctx.rng.choice([0, 1, 5])), "extreme-values-poll")
    canary(ctx, trace, corrupt_out("poll", op=("feed",), need_report=True))
    vacuity(ctx, ["feed.poll.two", "C14e.feed", "poll.late.pending", "feed.poll.report", "reset.poll"])
    ctx.rule = ("design: TLC fixpoint of machine x monitor over the malformed alphabet too (any contributing "
                "controller in any order, polls, ticks, resets) for timeouts {0, 2, Inf}; code: complete edge "
                "replay and seeded random full-alphabet histories on up to 16 channels with mixed registered / "
                "non-registered traffic, long runs, far-away clock readings and extreme-value histories, every clause "
                "C14a-f evaluated by TLC on every event. "
                "Non-trivial = distinct (call, reports) pairs with a report + reporting spec edges.")


PROPS = {"C07": c07, "C08": c08, "C10": c10, "C11": c11, "C13": c13, "C14": c14}
