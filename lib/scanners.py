"""Checks for the scanner properties (C07 scanner half, C08, C10-C17)."""
import json
import os
import random
import time

from common import (ConfigUnavailable, ToolError, Work, build_harness, exec_script, harness, log, read_ndjson, tlc, tlc_text,
                    validate_trace, write_ndjson, VERIF)
import gen

ALL_CNS = "{" + ", ".join(str(i) for i in range(128)) + "}"


def setfmt(xs):
    return "{" + ", ".join(str(x) for x in xs) + "}"


class Ctx:
    def __init__(self, prop, tier, seed):
        self.prop = prop
        self.tier = tier
        self.seed = seed
        self.rng = random.Random(seed * 1000003 + sum(map(ord, prop)))
        self.work = Work(prop)
        self.t0 = time.time()
        self.design = []          # TLC design-level runs
        self.states = 0
        self.transitions = 0
        self.traces = 0
        self.events = 0
        self.edges = 0
        self.viol = []            # findings against self.prop
        self.other = {}           # findings against other properties seen on the way (count)
        self.drift = 0
        self.stats = {}
        self.samples = []
        self.edge_reports = []
        self.canary = None
        self.notes = []
        self.quick = (tier == "quick")

    def q(self, quick, thorough):
        return quick if self.quick else thorough


# ----------------------------------------------------------------------------- design level

def run_mc(ctx, module, constants, properties=(), invariants=(), view="View", workers=8, timeout=1500,
           tag=None, allow_dead=()):
    cfg = "SPECIFICATION Spec\nCONSTANTS\n"
    for k, v in constants.items():
        cfg += "  %s = %s\n" % (k, v)
    if view:
        cfg += "VIEW %s\n" % view
    if properties:
        cfg += "PROPERTY " + " ".join(properties) + "\n"
    if invariants:
        cfg += "INVARIANT " + " ".join(invariants) + "\n"
    cfg += "CHECK_DEADLOCK FALSE\n"
    res = tlc(ctx.work, module, cfg, workers=workers, timeout=timeout, tag=tag or module, extra=["-coverage", "1"])
    if not res.ok or res.errors:
        raise ToolError("design-level model checking failed for %s (a defect of the SPECIFICATION, "
                        "not of the code):\n%s" % (module, tlc_text(res, 80)))
    # vacuity gate: every action of the model must have been taken (generated at least one state)
    actions = {k: v for k, v in res.coverage.items() if k not in ("Init",)}
    dead = [k for k, v in actions.items() if v[1] == 0 and k not in allow_dead]
    if dead:
        raise ToolError("vacuity gate: actions never taken in %s: %s" % (module, dead))
    ctx.design.append({"module": module, "constants": constants, "properties": list(properties),
                       "invariants": list(invariants), "distinct_states": res.distinct,
                       "transitions": res.generated, "depth": res.depth, "wall_s": round(res.wall, 1),
                       "action_coverage_distinct_total": actions})
    ctx.states += res.distinct
    ctx.transitions += res.generated
    log("MC %s %s: %d distinct states, %d transitions, %.1fs" % (module, tag or "", res.distinct,
                                                                 res.generated, res.wall))
    return res


def dump_edges(ctx, module, constants, tag):
    """TLC prints every transition of the machine (VIEW = machine state only)."""
    cfg = "SPECIFICATION Spec\nCONSTANTS\n"
    for k, v in constants.items():
        cfg += "  %s = %s\n" % (k, v)
    cfg += "VIEW EdgeView\nACTION_CONSTRAINT Emit\nCHECK_DEADLOCK FALSE\n"
    res = tlc(ctx.work, module, cfg, workers=1, timeout=1500, tag=tag)
    if not res.ok or res.errors:
        raise ToolError("edge dump failed for %s:\n%s" % (module, tlc_text(res, 60)))
    ids = {}
    seen = set()
    rows = []
    for t in res.of("EDGE"):
        o = json.loads(t[1])
        pk = json.dumps(o["p"], sort_keys=True)
        qk = json.dumps(o["q"], sort_keys=True)
        e = o["e"]
        ek = json.dumps(e, sort_keys=True)
        if pk not in ids:
            ids[pk] = len(ids)
        if (pk, ek) in seen:
            continue
        seen.add((pk, ek))
        if qk not in ids:
            ids[qk] = len(ids)
        row = {"p": ids[pk], "q": ids[qk], "op": e["op"], "out": e.get("out", [])}
        if "m" in e:
            row["m"] = e["m"]
        if "dt" in e:
            row["dt"] = e["dt"]
        rows.append(row)
    if not rows:
        raise ToolError("edge dump produced no edges for %s" % module)
    path = ctx.work.fresh("edges_" + tag + "_", "ndjson")
    write_ndjson(path, rows)
    log("edges %s: %d states, %d edges (%.1fs)" % (tag, len(ids), len(rows), res.wall))
    return path, len(ids), len(rows), rows[:3]


def replay_edges(ctx, edges_path, kind, to, cap, channels, impls):
    """Complete-edge replay into the real code; disagreements are escalated to the monitors."""
    reports = []
    paths_file = None
    for imp in impls:
        prefix = ctx.work.fresh("edgerep_%s_%s_" % (kind, imp), "out")
        out, dt = harness("std", ["edges", edges_path, kind, str(to), str(cap),
                                  ",".join(str(c) for c in channels), imp, prefix])
        rep = json.loads(out.strip().splitlines()[-1])
        rep.update({"kind": kind, "timeout": to, "impl": imp, "channels": len(channels)})
        reports.append(rep)
        ctx.edges += rep["edges_executed"]
        paths_file = paths_file or (prefix + ".paths")
        if rep["out_mismatches"] or rep["panics"]:
            # not a verdict yet: the monitors judge the linear histories
            run_script_file(ctx, prefix + ".mismatch.script", "edge-mismatch-%s-%s" % (kind, imp))
            ctx.drift += rep["out_mismatches"]
        log("edge replay %s to=%s impl=%s: %d edges, %d mismatches, functional=%s" % (
            kind, to, imp, rep["edges_executed"], rep["out_mismatches"], rep["state_map_functional"]))
    ctx.edge_reports.extend(reports)
    return paths_file


def run_apalache(ctx, module, step_timeout=2400, witness=None, theorem=None):
    """Unbounded safety of the DESIGN without value abstraction: Apalache checks that IndInv is an
    inductive invariant (base: Init => IndInv; step: IndInv /\\ Next => IndInv') over the full
    alphabet.  A time-out or tool failure is 'not discharged', never a violation."""
    import shutil, os
    from common import sh, SPEC
    d = ctx.work.fresh("apalache_" + module + "_", "d")
    os.makedirs(d)
    for sub in ("", "apalache"):
        for f in os.listdir(os.path.join(SPEC, sub)):
            if f.endswith(".tla"):
                shutil.copy(os.path.join(SPEC, sub, f), d)
    rec = {"module": module, "tool": "apalache-mc 0.58.0"}
    runs = [("base", ["--init=Init", "--inv=IndInv", "--length=0"], 600),
            ("step", ["--init=IndInit", "--inv=IndInv", "--length=1"], step_timeout)]
    if theorem:
        # a state predicate that holds in EVERY state satisfying the inductive invariant (hence in every
        # reachable state), for an arbitrary message chosen in IndInit: full value domain
        runs.append(("theorem_" + theorem, ["--init=IndInit", "--inv=" + theorem, "--length=0"], 1800))
    for name, args, tmo in runs:
        cmd = ["timeout", str(tmo), "apalache-mc", "check"] + args + ["--out-dir=" + os.path.join(d, "out_" + name), module + ".tla"]
        rc, out, dt = sh(cmd, cwd=d, check=False, timeout=tmo + 60)
        ok = "The outcome is: NoError" in out
        rec[name] = {"discharged": ok, "wall_s": round(dt, 1), "cmd": " ".join(cmd[2:])}
        if not ok:
            rec[name]["tail"] = out[-600:]
            if "The outcome is: Error" in out and "violat" in out.lower():
                raise ToolError("Apalache found IndInv not inductive for %s (a defect of the SPECIFICATION):\n%s" % (module, out[-1500:]))
        log("apalache %s %s: %s (%.0fs)" % (module, name, "discharged" if ok else "NOT discharged", dt))
    if witness:
        # non-vacuity: IndInit must admit the interesting states, i.e. the negated witness must be violated
        cmd = ["timeout", "600", "apalache-mc", "check", "--init=IndInit", "--inv=" + witness, "--length=0",
               "--out-dir=" + os.path.join(d, "out_witness"), module + ".tla"]
        rc, out, dt = sh(cmd, cwd=d, check=False, timeout=700)
        rec["witness"] = {"invariant_expected_to_fail": witness, "failed_as_expected": "The outcome is: Error" in out,
                          "wall_s": round(dt, 1)}
    ctx.extra = getattr(ctx, "extra", {})
    ctx.extra.setdefault("apalache", []).append(rec)
    shutil.rmtree(d, ignore_errors=True)
    return rec


# ----------------------------------------------------------------------------- traces

def n_trace_events(cmd, trace_row, following=()):
    if cmd["op"] in ("enc14", "encpn"):
        return 1 + len(trace_row.get("bytes", []))
    if cmd["op"] == "spin":
        return 1
    if cmd["op"] == "rep":
        # the events of one `rep` command carry the same "inrep" tag
        k = 1
        for r in following:
            if r.get("inrep") != trace_row.get("inrep"):
                break
            k += 1
        return k
    return 1


def run_script(ctx, rows, name, history=False, config="std"):
    script = ctx.work.fresh("script_" + name + "_", "ndjson")
    write_ndjson(script, rows)
    return run_script_file(ctx, script, name, history, config)


def run_script_file(ctx, script, name, history=False, config="std"):
    if os.path.getsize(script) == 0:
        return None
    trace = script + ".trace"
    n = exec_script(script, trace, config=config)
    res = validate_trace(ctx.work, trace, history=history)
    ctx.traces += 1
    ctx.events += res.events
    for k, v in res.stats.items():
        ctx.stats[k] = ctx.stats.get(k, 0) + v
    tool = res.of("TOOLERR") + [v for v in res.of("VIOL") if v[1] == "TOOL"]
    if tool:
        raise ToolError("the machinery is inconsistent on %s: %s" % (name, tool[:5]))
    ctx.drift += len(res.of("DRIFT"))
    if res.of("DRIFT"):
        log("DRIFT on %s: %s" % (name, res.of("DRIFT")[:3]))
    viols = [v for v in res.of("VIOL")]
    mine = [v for v in viols if v[1] == ctx.prop]
    for v in viols:
        if v[1] != ctx.prop:
            ctx.other[v[1]] = ctx.other.get(v[1], 0) + 1
    if mine:
        first = min(v[3] for v in mine)
        clause = [v[2] for v in mine if v[3] == first][0]
        rp = save_replay(ctx, script, trace, first, name)
        ev = read_ndjson(trace, limit=first)[-1]
        ctx.viol.append({"clause": clause, "trace_index": first, "event": ev, "replay": rp,
                         "count": len(mine), "driver": name})
    if len(ctx.samples) < 4:
        rows = read_ndjson(trace, limit=400)
        pick = [r for r in rows if r.get("out")][:2] or rows[:2]
        ctx.samples.append({"driver": name, "events": res.events, "first_events_with_reports": pick})
    log("trace %s: %d events, %d findings for %s, %.1fs" % (name, res.events, len(mine), ctx.prop, res.wall))
    return res, trace


def save_replay(ctx, script, trace, index, name):
    """The script prefix that produces the trace up to and including event `index` (1-based)."""
    cmds = read_ndjson(script)
    tr = read_ndjson(trace, limit=index + 8)
    keep = []
    pos = 0
    for c in cmds:
        if pos >= len(tr):
            break
        k = n_trace_events(c, tr[pos], tr[pos + 1:pos + 8])
        keep.append(c)
        pos += k
        if pos >= index:
            break
    from common import REPLAY_DIR
    os.makedirs(REPLAY_DIR, exist_ok=True)
    rp = os.path.join(REPLAY_DIR, "%s-%s-seed%d-%d.ndjson" % (ctx.prop, name, ctx.seed, index))
    # keep the replay small: start at the last creation of the lowest-numbered instance involved
    write_ndjson(rp, keep)
    return rp


def canary(ctx, trace, mutate, limit=4000):
    """Binding demonstration: one recorded field is corrupted; TLC must reject."""
    rows = read_ndjson(trace, limit=limit)
    idx = mutate(rows, ctx.rng)
    if idx is None:
        raise ToolError("canary: no suitable event in %s" % trace)
    rows = rows[:idx + 1]
    p = ctx.work.fresh("canary_", "ndjson")
    write_ndjson(p, rows)
    res = validate_trace(ctx.work, p)
    hit = [v for v in res.of("VIOL") if v[1] == ctx.prop and v[3] == idx + 1]
    ctx.canary = {"corrupted_event": idx + 1, "rejected": bool(hit),
                  "findings": [v[1:] for v in res.of("VIOL")][:4]}
    if not hit and not ctx.viol:       # with real findings the verdict is already 'violation'
        raise ToolError("canary accepted: corrupting event %d of %s was not noticed for %s (%s)" % (
            idx + 1, trace, ctx.prop, res.of("VIOL")[:3]))


def corrupt_out(kind=None, op=("feed", "poll"), need_report=True):
    def f(rows, rng):
        kinds = {}
        cand = []
        for i, r in enumerate(rows):
            if r["op"] == "new":
                kinds[r["id"]] = r["k"]
            if r["op"] == "copy":
                kinds[r["to2"]] = kinds.get(r["id"])
            if r["op"] in op and (kind is None or kinds.get(r["id"]) == kind):
                if bool(r.get("out")) == need_report and not r.get("tw"):
                    cand.append(i)
        if not cand:
            return None
        i = rng.choice(cand)
        r = rows[i]
        if r["out"]:
            r["out"][0][2] = (r["out"][0][2] + 1) % 128
        else:
            k = kinds.get(r["id"])
            ch = r["m"][0] % 16 if r["op"] == "feed" else r["ch"]
            r["out"] = [[ch, 0, 0]] if k == "cc14" else [[ch, 0, 0, 0, 0, 0]]
        return i
    return f


def corrupt_field(field, value, pred):
    def f(rows, rng):
        cand = [i for i, r in enumerate(rows) if pred(r)]
        if not cand:
            return None
        i = rng.choice(cand)
        rows[i][field] = value
        return i
    return f


def system_behaviours(ctx, to, orders, num, depth, seed):
    """TLC as generator of SYSTEM behaviours (MC_MidiSystem, `-simulate`, full value domain, 16 channels):
    senders put encodings on a wire, real-time messages are inserted anywhere, the receiver delivers to three
    scanners at once and polls.  Every printed behaviour also satisfied the end-to-end invariants."""
    consts = {"Chans": setfmt(range(16)), "V7": "{0}", "V14": "{0}", "Cns14": setfmt([n for n in range(32) if n != 6]),
              "TOc": str(999 if to < 0 else to), "CAP": str(max(to, 0) + 3), "MaxSend": "100000", "MaxRt": "100000",
              "Orders": orders, "Emitting": "TRUE", "MaxN": str(depth)}
    cfg = "SPECIFICATION GenSpec\nCONSTANTS\n" + "".join("  %s = %s\n" % kv for kv in consts.items())
    cfg += "INVARIANT Dump I_E2E_Cc14 I_E2E_Poll I_E2E_Pn\nCHECK_DEADLOCK FALSE\n"
    res = tlc(ctx.work, "MC_MidiSystem", cfg, workers=1, timeout=900, tag="sysgen",
              extra=["-simulate", "num=%d" % num, "-depth", str(8 * depth), "-seed", str(seed)])
    if res.errors:
        raise ToolError("system behaviour generation failed:\n" + tlc_text(res))
    behs = []
    seen = set()
    for t in res.of("SYSB"):
        key = t[1][:3000]
        if key not in seen:
            seen.add(key)
            behs.append(json.loads(t[1]))
    if not behs:
        raise ToolError("system behaviour generation produced nothing:\n" + tlc_text(res))
    return behs


def system_script(beh, to, base=40):
    """The receiver side of a system behaviour on three real scanners fed the same stream; `exp` = what the
    specification's scanner reported, filed under the property that owns that scanner's reports."""
    ids = {"cc14": base, "pn": base + 1, "poll": base + 2}
    rows = [{"op": "new", "id": ids["cc14"], "k": "cc14", "to": 0}, {"op": "new", "id": ids["pn"], "k": "pn", "to": 0},
            {"op": "new", "id": ids["poll"], "k": "poll", "to": to}]
    for e in beh:
        if e["op"] == "feed":
            rows.append({"op": "feed", "id": ids["cc14"], "m": e["m"], "exp": e["o14"], "expp": "C08"})
            rows.append({"op": "feed", "id": ids["pn"], "m": e["m"], "exp": e["opn"], "expp": "C11"})
            rows.append({"op": "feed", "id": ids["poll"], "m": e["m"], "exp": e["opoll"], "expp": "C12"})
        elif e["op"] == "poll":
            rows.append({"op": "poll", "id": ids["poll"], "ch": e["ch"], "exp": e["opoll"], "expp": "C12"})
        else:
            rows.append({"op": "tick", "id": -1, "dt": e["dt"]})
    return rows


def system_behaviour_battery(ctx):
    rows = []
    n = 0
    for i, (to, orders) in enumerate(((2, '{"msb", "lsb"}'), (0, '{"lsb"}'), (5, '{"msb"}'))):
        behs = system_behaviours(ctx, to, orders, ctx.q(6, 30), ctx.q(250, 500), ctx.seed * 1000 + i)
        for b in behs:
            rows += system_script(b, to)
            n += 1
    ctx.extra = getattr(ctx, "extra", {})
    ctx.extra["system_behaviours_generated_by_tlc"] = n
    run_script(ctx, rows, "system-behaviours")


def nostd_run(ctx, kind, n):
    """The 14-bit CC and (N)RPN scanners also exist without the `std` feature: the same random histories,
    round trips and long runs against the build of the crate with default-features = false."""
    rows = gen.random_plain(ctx.rng, kind, n)
    rows += (gen.roundtrip_cc14 if kind == "cc14" else gen.roundtrip_pn)(ctx.rng, max(n // 20, 100), first_id=2)
    rows += gen.long_runs(ctx.rng, kind, 0, lengths=[1, 2, 255, 256, 257, 65535, 65536], base_id=810)
    try:
        build_harness("std")
        build_harness("nostd")
    except ConfigUnavailable as e:
        note = "configuration `nostd` skipped for the %s scanner: the crate under test does not build there" % kind
        if note not in ctx.notes:
            ctx.notes.append(note)
        log("NOTE " + note + "\n" + str(e)[-600:])
        return
    run_script(ctx, rows, "without-std-" + kind, config="nostd")


def real_clock_run(ctx):
    """Run of the PRODUCTION configuration (guard off, real std::time::Instant): histories whose reports do
    not depend on how much time passes - timeout 0 (every poll is late) and timeouts that no run outlives
    (Duration::MAX, 2^40 .. 2^63 s: no poll is ever late; `deadline = now + timeout` style arithmetic
    overflows there) - and histories with finite timeouts in which real time can only confirm what the
    script declares (real sleeps before late polls; a 10-minute timeout for early ones)."""
    from common import exec_script
    rows = gen.random_poll(ctx.rng, ctx.q(6000, 60000), timeouts=[0, -1, -1, -2], first_id=900, seg=400)
    rows = [r for r in rows if r["op"] != "tick"]
    # finite timeouts against the real clock: outcomes that real time can only confirm (see gen.real_time_script)
    rows += gen.real_time_script(ctx.rng, ctx.q(120, 600), ctx.q(3000, 30000))
    rows += gen.edge_timeouts(ctx.rng, sleep=True)
    script = ctx.work.fresh("script_real-clock_", "ndjson")
    write_ndjson(script, rows)
    exec_script(script, script + ".trace", config="nohook")
    res2 = validate_trace(ctx.work, script + ".trace")
    tool = res2.of("TOOLERR") + [v for v in res2.of("VIOL") if v[1] == "TOOL"]
    if tool:
        raise ToolError("the machinery is inconsistent on the real-clock run: %s" % tool[:5])
    bad = [v for v in res2.of("VIOL") if v[1] == ctx.prop]
    for v in res2.of("VIOL"):
        if v[1] != ctx.prop:
            ctx.other[v[1]] = ctx.other.get(v[1], 0) + 1
    ctx.traces += 1
    ctx.events += res2.events
    if bad:
        first = min(v[3] for v in bad)
        ctx.viol.append({"clause": [v[2] for v in bad if v[3] == first][0], "trace_index": first, "event": None,
                         "replay": save_replay(ctx, script, script + ".trace", first, "real-clock"),
                         "count": len(bad), "driver": "real-clock (guard off)"})
    log("trace real-clock (guard off): %d events, %d findings for %s" % (res2.events, len(bad), ctx.prop))


def measured_filter(rows, T):
    """Keeps of every segment (from one `new` of the first instance to the next) the longest prefix in which
    every poll's early / late classification in declared time (`sn`) is confirmed by the measured brackets
    (`r0`, `r1`) against every earlier feed of the same channel to the same instance.  Returns the kept
    events and counters.  This is a filter on which OBSERVATIONS are conclusive; it computes no expectation."""
    kept, stats = [], {"segments": 0, "segments_cut": 0, "polls_kept": 0, "polls_early": 0, "polls_late": 0}
    feeds = {}
    cut = False
    first_id = None
    i = 0
    while i < len(rows):
        e = rows[i]
        if e["op"] == "new":
            if first_id is None:
                first_id = e["id"]
            if e["id"] == first_id:
                stats["segments"] += 1
                cut = False
            feeds[e["id"]] = {}
            kept.append(e)
            i += 1
            continue
        if e["op"] == "tick":
            kept.append(e)
            i += 1
            continue
        # a unit = the event on the first instance and, if present, its twin on the second
        unit = [e]
        if i + 1 < len(rows) and rows[i + 1].get("tw") == 1:
            unit.append(rows[i + 1])
        i += len(unit)
        if cut:
            continue
        ok = True
        for u in unit:
            if u["op"] != "poll":
                continue
            for f in feeds[u["id"]].get(u["ch"], []):
                late = u["sn"] - f["sn"] >= T
                if late and not (u["r0"] - f["r1"] >= T * 1000):
                    ok = False
                if not late and not (u["r1"] - f["r0"] < T * 1000):
                    ok = False
        if not ok:
            cut = True
            stats["segments_cut"] += 1
            continue
        for u in unit:
            if u["op"] == "feed" and u["m"][0] < 240:
                feeds[u["id"]].setdefault(u["m"][0] % 16, []).append(u)
            if u["op"] == "poll" and u["id"] == first_id:
                stats["polls_kept"] += 1
                fs = feeds[u["id"]].get(u["ch"], [])
                if any(u["sn"] - f["sn"] < T for f in fs):
                    stats["polls_early"] += 1
                elif fs:
                    stats["polls_late"] += 1
            kept.append(u)
    return kept, stats


def mc_brackets(ctx):
    """Design level: TLC checks, over every interleaving of clock ticks with the six clock readings, that a
    classification confirmed by the brackets is the scanner's own (MC_Brackets!Sound), and refutes the four
    witnesses (both confirmations occur; in the unconfirmed zone both outcomes occur)."""
    consts = {"TO": "3", "MaxT": "8"}
    run_mc(ctx, "MC_Brackets", consts, [], ["Sound"], view=None, workers=4, tag="MC_Brackets")
    for w in ("NeverConfirmedLate", "NeverConfirmedEarly", "NeverUnsettledLate", "NeverUnsettledEarly"):
        cfg = "SPECIFICATION Spec\nCONSTANTS\n  TO = 3\n  MaxT = 8\nINVARIANT %s\nCHECK_DEADLOCK FALSE\n" % w
        res = tlc(ctx.work, "MC_Brackets", cfg, workers=1, timeout=300, tag="MC_Brackets_" + w)
        if "Invariant %s is violated" % w not in res.out:
            raise ToolError("vacuity gate: MC_Brackets witness %s was not refuted:\n%s" % (w, tlc_text(res, 20)))
    if not ctx.quick:
        # thorough tier: the same lemma for unbounded time, proved by TLAPS (SMT back end); "not discharged" is
        # recorded and is never a verdict about the code
        import shutil, subprocess
        from common import VERIF
        d = ctx.work.fresh("tlaps_", "d")
        os.makedirs(d)
        shutil.copy(os.path.join(VERIF, "spec", "proofs", "BracketsLemma.tla"), d)
        try:
            p = subprocess.run(["timeout", "300", "tlapm", "--threads", "4", "BracketsLemma.tla"], cwd=d,
                               capture_output=True, text=True)
            proved = "obligations proved" in (p.stdout + p.stderr) and "failed" not in (p.stdout + p.stderr).lower()
            last = [l for l in (p.stdout + p.stderr).splitlines() if "obligation" in l][-1:]
        except Exception as e:          # tlapm missing or broken: a limit of the sandbox, not of the code
            proved, last = False, [str(e)]
        ctx.extra = getattr(ctx, "extra", {})
        ctx.extra["tlaps_BracketsLemma"] = {"proved": proved, "summary": last}
        log("TLAPS BracketsLemma: %s %s" % ("proved" if proved else "NOT discharged", last))


def measured_clock_run(ctx, T=300):
    """Production configuration against the real clock with outcomes that depend on real time being SHORT,
    made sound by measurement (gen.real_time_measured, measured_filter): C13 (no report before the timeout,
    the report at the first poll after it) and C15 (another channel's traffic and polls do not move a
    channel's deadline) in the code that ships, where no scripted clock reaches."""
    mc_brackets(ctx)
    rows = gen.real_time_measured(ctx.rng, ctx.q(14, 120), T=T)
    script = ctx.work.fresh("script_measured-clock_", "ndjson")
    write_ndjson(script, rows)
    run_measured_file(ctx, script, T)


def run_measured_file(ctx, script, T=None):
    from common import exec_script
    if T is None:
        T = [r["to"] for r in read_ndjson(script) if r["op"] == "new"][0]
    exec_script(script, script + ".raw", config="nohook")
    kept, st = measured_filter(read_ndjson(script + ".raw"), T)
    trace = script + ".trace"
    write_ndjson(trace, kept)
    res2 = validate_trace(ctx.work, trace)
    tool = res2.of("TOOLERR") + [v for v in res2.of("VIOL") if v[1] == "TOOL"]
    if tool:
        raise ToolError("the machinery is inconsistent on the measured-clock run: %s" % tool[:5])
    bad = [v for v in res2.of("VIOL") if v[1] == ctx.prop]
    for v in res2.of("VIOL"):
        if v[1] != ctx.prop:
            ctx.other[v[1]] = ctx.other.get(v[1], 0) + 1
    ctx.traces += 1
    ctx.events += res2.events
    for k, v in res2.stats.items():
        ctx.stats[k] = ctx.stats.get(k, 0) + v
    ctx.extra = getattr(ctx, "extra", {})
    ctx.extra["measured_real_clock"] = dict(st, timeout_ms=T)
    if st["polls_early"] == 0 or st["polls_late"] == 0:
        ctx.notes.append("measured real-clock run: no conclusive early or late poll survived the bracket filter (%s)" % st)
    if bad:
        first = min(v[3] for v in bad)
        ev = kept[first - 1] if first - 1 < len(kept) else None
        ctx.viol.append({"clause": [v[2] for v in bad if v[3] == first][0], "trace_index": first, "event": ev,
                         "replay": save_replay(ctx, script, script + ".raw", _raw_index(read_ndjson(script + ".raw"), ev, first), "measured-clock"),
                         "count": len(bad), "driver": "measured real clock (guard off)"})
    log("trace measured-clock (guard off): %d events kept of %d segments (%d cut), %d findings for %s"
        % (res2.events, st["segments"], st["segments_cut"], len(bad), ctx.prop))


def _raw_index(raw, ev, default):
    """1-based position in the unfiltered trace of the event reported in the filtered one."""
    if ev is None:
        return default
    for i, r in enumerate(raw):
        if r.get("r0") == ev.get("r0") and r.get("id") == ev.get("id") and r.get("op") == ev.get("op"):
            return i + 1
    return default


def long_run_battery(ctx, kinds, to_poll=5):
    """Partial progress, then ONE call repeated n times (n up to 2^16 + 1, summarised by `skip` events),
    then completion; twins that are spared the run.  Exposes counters, ages, generation numbers and
    'every n-th call' logic that the bounded model and short random histories cannot reach."""
    for k in kinds:
        run_script(ctx, gen.long_runs(ctx.rng, k, to_poll if k == "poll" else 0, thorough=not ctx.quick),
                   "long-runs-" + k)


def far_time_battery(ctx, twins=True):
    """The polling scanner at clock readings where 16/32/64-bit counts of ns / us / ms wrap."""
    run_script(ctx, gen.far_times(ctx.rng, ctx.q(150, 1500)), "far-away-times")
    run_script(ctx, gen.pending_across_wraps(ctx.rng), "pending-across-wraps")
    run_script(ctx, gen.edge_timeouts(ctx.rng), "timeouts-at-the-edge-of-representability")
    if twins:
        # a script of its own, in pieces: its time steps go to every instance (id -1), and TLC's integers are 32-bit
        for i in range(ctx.q(1, 10)):
            run_script(ctx, gen.far_times_twin(ctx.rng, 60), "far-away-times-twins")


# ----------------------------------------------------------------------------- sweeps over spec states

def load_paths(paths_file, ctx, max_states):
    rows = read_ndjson(paths_file)
    if len(rows) > max_states:
        keep = [rows[0]] + ctx.rng.sample(rows[1:], max_states - 1)
        rows = keep
    return rows


def noncontributing_samples(rng, kind, ch, n):
    """Non-contributing messages on channel ch: all non-contributing controllers, every non-CC
    status byte (channel and system), boundary and random data bytes."""
    out = []
    cns = [n_ for n_ in range(128) if (n_ > 63 if kind == "cc14" else n_ not in gen.PN_CNS)]
    for _ in range(n):
        r = rng.random()
        if r < 0.5:
            out.append([176 + ch, rng.choice(cns), gen.rval(rng)])
        elif r < 0.8:
            contributing = gen.PN_CNS if kind != "cc14" else [0, 1, 31, 32, 33, 63]
            out.append([rng.choice(gen.OTHER_CH_STATUS) + ch, rng.choice(contributing + [rng.randrange(128)]),
                        gen.rval(rng)])
        else:
            contributing = gen.PN_CNS if kind != "cc14" else [0, 1, 31, 32, 33, 63]
            out.append([240 + rng.randrange(16), rng.choice(contributing + [rng.randrange(128)]), gen.rval(rng)])
    return out


def retarget(op, iid, ch0, ch):
    """A path op recorded on channel ch0 -> the same op for instance iid on channel ch."""
    o = dict(op)
    o["id"] = iid
    if o["op"] == "feed" and o["m"][0] < 240:
        o["m"] = [o["m"][0] - ch0 + ch, o["m"][1], o["m"][2]]
    if o["op"] == "poll":
        o["ch"] = ch
    return o


def variant_paths(paths_file):
    """Paths to every node of the lock-step exploration (on the unchanged tree: one per spec state)."""
    return paths_file[:-len(".paths")] + ".variantpaths"


def sweep_roundtrip(ctx, paths_file, kind, to, max_states):
    """C07 / C10 / C12 'whatever it has been fed before': after the access path of every explored node
    the real encoding of a few messages (semantically loaded controllers / numbers and a random one)."""
    rows = []
    for st in load_paths(paths_file, ctx, max_states):
        ch = ctx.rng.randrange(16)
        rows.append({"op": "new", "id": 1, "k": kind, "to": to})
        for op in st["path"]:
            rows.append(retarget(op, 1, 0, ch))
        if kind == "cc14":
            for cn in ctx.rng.sample([0, 1, 6, 7, 10, 11], 2) + [ctx.rng.randrange(32)]:
                rows.append({"op": "enc14", "id": 1, "msg": [ch, cn, ctx.rng.choice([0, 1, 129, 8256, 16383, ctx.rng.randrange(16384)])],
                             "fac": "raw"})
        else:
            for _ in range(3):
                msg = gen.rand_pn_msg(ctx.rng)
                msg[0] = ch
                if kind == "pn":
                    rows.append({"op": "encpn", "id": 1, "msg": msg, "ord": "lsb", "fac": "raw"})
                else:
                    ord_ = ctx.rng.choice(["msb", "lsb"])
                    n = 4 if msg[4] == 1 else 3
                    rows.append({"op": "encpn", "id": 1, "msg": msg, "ord": ord_, "gk": "rtp", "more": 1, "fac": "raw"})
                    rows.append({"op": "tick", "id": 1, "dt": max(to, 0)})
                    rows.append({"op": "poll", "id": 1, "ch": ch, "grp": {"k": "rtp", "i": n + 1, "n": n + 1, "msg": msg, "ord": ord_}})
    return rows


def sweep_transparent(ctx, paths_file, kind, to, per_state, max_states):
    """C16: in every reachable specification state, feed non-contributing messages."""
    rows = []
    for st in load_paths(paths_file, ctx, max_states):
        ch = ctx.rng.randrange(16)
        rows.append({"op": "new", "id": 1, "k": kind, "to": to})
        for op in st["path"]:
            rows.append(retarget(op, 1, 0, ch))
        for m in noncontributing_samples(ctx.rng, kind, ch, per_state):
            rows.append({"op": "feed", "id": 1, "m": m, "f": gen.impl(ctx.rng)})
    return rows


def sweep_reset(ctx, paths_file, kind, to, max_states, suffix=8):
    """C17: in every reachable specification state, reset(); compare with a new scanner."""
    rows = []
    for st in load_paths(paths_file, ctx, max_states):
        ch = ctx.rng.randrange(16)
        rows.append({"op": "new", "id": 1, "k": kind, "to": to})
        now = 0
        for op in st["path"]:
            o = retarget(op, 1, 0, ch)
            if o["op"] == "tick":
                now += o["dt"]
            rows.append(o)
        rows.append({"op": "reset", "id": 1})
        rows.append({"op": "new", "id": 2, "k": kind, "to": to, "now": now})
        rows.append({"op": "eq", "id": 1, "b": 2, "xe": True, "xp": "C17"})
        # first a complete construct on the same channel (a scanner that is really new reports it in full) ...
        if kind == "cc14":
            cn = ctx.rng.randrange(32)
            fixed = [[176 + ch, cn, 100], [176 + ch, cn + 32, 3]]
        else:
            fixed = [[176 + ch, 99, 3], [176 + ch, 98, 37], [176 + ch, 6, 100], [176 + ch, 38, 24], [176 + ch, 96, 1],
                     [176 + ch, 101, 3], [176 + ch, 100, 36], [176 + ch, 38, 7], [176 + ch, 6, 8]]
        if True:
            for m in fixed:
                rows.append({"op": "feed", "id": 1, "m": m})
                rows.append({"op": "feed", "id": 2, "m": m, "tw": 1, "twp": "C17"})
            if kind == "poll":
                rows.append({"op": "tick", "id": -1, "dt": max(to, 0) + 1})
                rows.append({"op": "poll", "id": 1, "ch": ch})
                rows.append({"op": "poll", "id": 2, "ch": ch, "tw": 1, "twp": "C17"})
        # ... then seeded traffic
        tr = gen.Traffic(ctx.rng, kind, [ch])
        for _ in range(suffix):
            r = ctx.rng.random()
            if kind == "poll" and r < 0.2:
                rows.append({"op": "poll", "id": 1, "ch": ch})
                rows.append({"op": "poll", "id": 2, "ch": ch, "tw": 1, "twp": "C17"})
            elif kind == "poll" and r < 0.35:
                rows.append({"op": "tick", "id": -1, "dt": ctx.rng.choice(gen.tick_choices(to))})
            else:
                m = tr.msg()
                rows.append({"op": "feed", "id": 1, "m": m})
                rows.append({"op": "feed", "id": 2, "m": m, "tw": 1, "twp": "C17"})
    return rows


# ----------------------------------------------------------------------------- per-kind bundles

def cc14_constants(ctx):
    return {"V": ctx.q("{0, 1, 127}", "{0, 1, 64, 127}"), "Cns": ALL_CNS,
            "RtVals": "{0, 1, 127, 128, 129, 8191, 8192, 16256, 16383}"}


def pn_constants(ctx):
    return {"V": ctx.q("{0, 1, 127}", "{0, 1, 64, 127}"),
            "ExtraCns": "{0, 5, 7, 32, 37, 39, 70, 95, 102, 120, 127}"}


def poll_constants(ctx, to):
    cap = 2 if to in (0, -1) else to
    return {"V": ctx.q("{0, 127}", "{0, 1, 127}"), "ExtraCns": "{5, 7, 37, 39, 95, 102}",
            "TOc": str(999 if to < 0 else to), "CAP": str(cap)}


def mc_cc14(ctx):
    return run_mc(ctx, "MC_Cc14", cc14_constants(ctx), ["P_C08", "P_C16", "P_C17"],
                  ["I_C07", "I_Ghost", "TypeOK"])


def mc_pn(ctx, with_run=True):
    inv = ["I_C10", "I_Ghost"] + (["I_C10run"] if with_run else [])
    return run_mc(ctx, "MC_Pn", pn_constants(ctx), ["P_C11", "P_C16", "P_C17"], inv)


def mc_poll(ctx, timeouts=(0, 2, -1)):
    for to in timeouts:
        run_mc(ctx, "MC_Poll", poll_constants(ctx, to), ["P_Mon", "P_C13early", "P_C16", "P_C17"],
               ["I_C13time", "I_C12enc", "TypeOK"], workers=12, tag="MC_Poll_to%s" % to)


def edges_cc14(ctx, channels=None, impls=("raw", "str", "for")):
    path, ns, ne, sample = dump_edges(ctx, "MC_Cc14", cc14_constants(ctx), "cc14")
    ctx.samples.append({"edges_cc14": sample})
    return replay_edges(ctx, path, "cc14", 0, 2, channels or list(range(16)), impls)


def edges_pn(ctx, channels=None, impls=("raw", "str", "for")):
    path, ns, ne, sample = dump_edges(ctx, "MC_Pn", pn_constants(ctx), "pn")
    ctx.samples.append({"edges_pn": sample})
    return replay_edges(ctx, path, "pn", 0, 2, channels or list(range(16)), impls)


def edges_poll(ctx, timeouts=(0, 2, -1), channels=None, impls=("raw", "str", "for")):
    files = {}
    for to in timeouts:
        c = poll_constants(ctx, to)
        path, ns, ne, sample = dump_edges(ctx, "MC_Poll", c, "poll_to%s" % to)
        if to == timeouts[0]:
            ctx.samples.append({"edges_poll": sample})
        files[to] = replay_edges(ctx, path, "poll", to, int(c["CAP"]), channels or list(range(16)), impls)
    return files
