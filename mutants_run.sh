#!/bin/bash
# usage: mutants_run.sh <patch.diff> <property> [tier]   -- applies a seeded change to /repo, runs the check, reverts.
set -u
patch=$1; prop=$2; tier=${3:-quick}
cd /repo || exit 2
if ! git diff --quiet; then echo "repo dirty"; exit 2; fi
git apply "$patch" || { echo "patch does not apply"; exit 2; }
cd /verif && ./check "$prop" --tier "$tier" 2>/dev/null | grep -E "^(VIOLATION|KNOWN-FINDING|DRIFT|TOOL-ERROR|RESULT)" | cut -c1-400
rc=${PIPESTATUS[0]}
git -C /repo checkout -- . 
echo "exit=$rc"
