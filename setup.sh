#!/bin/bash
# Builds the framework offline from files on disk only.
set -e
cd /verif/harness
export CARGO_NET_OFFLINE=true
cargo build --offline --quiet --target-dir target/std
cargo build --offline --quiet --target-dir target/nostd --no-default-features
cargo build --offline --quiet --target-dir target/serde --features with_serde
RUSTFLAGS="--check-cfg cfg(helgoboss_midi_verif)" cargo build --offline --quiet --target-dir target/nohook
cd /verif/spec
for m in TraceWorld Tables PnRun PollRun mc/MC_Cc14 mc/MC_Pn mc/MC_Poll mc/MC_Sender mc/MC_Iso mc/MC_ShortMsg mc/MC_Ints mc/MC_PnMsg mc/MC_MidiSystem mc/MC_Brackets; do
  d=$(mktemp -d /verif/work/sany.XXXXXX); cp /verif/spec/*.tla /verif/spec/mc/*.tla $d/
  (cd $d && JAVA_TOOL_OPTIONS=-Djava.io.tmpdir=$d tla-sany $(basename $m).tla > sany.log 2>&1) || { cat $d/sany.log; exit 1; }
  rm -rf $d
done
echo setup ok
