------------------------------ MODULE Cc14Scanner ------------------------------
(***************************************************************************)
(* ControlChange14BitMessageScanner, one channel, written to be bound:     *)
(* one operator per match arm / process_* function of                      *)
(* src/control_change_14_bit_message_scanner.rs, same state shape.         *)
(*                                                                          *)
(* Everything here is a constant-level operator so that it can be          *)
(*  (i)  model-checked (MC_Cc14.tla),                                       *)
(*  (ii) used as the oracle in trace validation (TraceWorld.tla).           *)
(***************************************************************************)
EXTENDS MidiBase

\* Apalache type aliases (comments for TLC)
\* @typeAlias: cc14St = { cn: Int, v: Int };
\* @typeAlias: cc14Res = { st: $cc14St, out: Seq(Seq(Int)) };
Cc14Aliases == TRUE

(************************** the 14-bit CC message **************************)
\* @type: (Int) => Bool;
Cc14NewPanics(cn) == cn > 31                  \* ControlChange14BitMessage::new
\* @type: (Seq(Int)) => Seq(Seq(Int));
Cc14Encode(msg) ==                            \* msg = <<ch, cn, val>>, cn <= 31
    << CC(msg[1], msg[2], Hi(msg[3])), CC(msg[1], msg[2] + 32, Lo(msg[3])) >>

(******************************* the machine *******************************)
\* @type: $cc14St;
Cc14Init == [cn |-> None, v |-> None]         \* msb_controller_number, value_msb

\* @type: ($cc14St, Int, Int) => $cc14Res;
Cc14ProcessValueMsb(st, n, v) ==
    [st |-> [cn |-> n, v |-> v], out |-> <<>>]

\* @type: ($cc14St, Int, Int, Int) => $cc14Res;
Cc14ProcessValueLsb(st, c, n, v) ==
    IF st.cn = None \/ st.v = None THEN [st |-> st, out |-> <<>>]       \* `?` early returns
    ELSE IF n # st.cn + 32         THEN [st |-> st, out |-> <<>>]       \* not the matching LSB
    ELSE [st |-> st, out |-> << <<c, st.cn, Join(st.v, v)>> >>]          \* state is kept

\* feed of a message that HAS a channel (the channel dispatch is in the wrapper)
\* @type: ($cc14St, Seq(Int)) => $cc14Res;
Cc14Feed(st, m) ==
    IF ~IsCC(m) THEN [st |-> st, out |-> <<>>]                            \* `_ => None`
    ELSE IF CcNum(m) <= 31 THEN Cc14ProcessValueMsb(st, CcNum(m), CcVal(m))
    ELSE IF CcNum(m) <= 63 THEN Cc14ProcessValueLsb(st, MsgChannel(m), CcNum(m), CcVal(m))
    ELSE [st |-> st, out |-> <<>>]                                        \* `_ => None`

\* @type: ($cc14St) => $cc14St;
Cc14Reset(st) == Cc14Init

(***************** C08 monitor, ghost form (property text) *****************)
(* g = the most recent Control Change with a controller number below 32   *)
(* fed on this channel since creation or reset: <<n, v>>, or <<>> if none. *)
\* @type: Seq(Int);
Cc14GhostInit == <<>>
\* @type: (Seq(Int), Seq(Int)) => Seq(Int);
Cc14GhostFeed(g, m) == IF IsCC(m) /\ CcNum(m) < 32 THEN <<CcNum(m), CcVal(m)>> ELSE g
\* @type: (Seq(Int)) => Seq(Int);
Cc14GhostReset(g) == <<>>

\* the complete list of reports the property allows for this input
\* @type: (Seq(Int), Seq(Int)) => Seq(Seq(Int));
Cc14Expected(g, m) ==
    IF /\ IsCC(m) /\ CcNum(m) >= 32 /\ CcNum(m) <= 63
       /\ g # <<>> /\ g[1] = CcNum(m) - 32
    THEN << <<MsgChannel(m), CcNum(m) - 32, 128 * g[2] + CcVal(m)>> >>
    ELSE <<>>

(* C16 for this scanner: what cannot be part of a 14-bit CC *)
\* @type: (Seq(Int)) => Bool;
Cc14NonContributing(m) == ~IsCC(m) \/ CcNum(m) > 63

(* C07, scanner half: in ANY state, feeding Cc14Encode(msg) yields nothing  *)
(* and then exactly msg.                                                   *)
\* @type: ($cc14St, Seq(Int)) => Bool;
Cc14RoundTripOK(st, msg) ==
    LET e  == Cc14Encode(msg)
        r1 == Cc14Feed(st, e[1])
        r2 == Cc14Feed(r1.st, e[2])
    IN r1.out = <<>> /\ r2.out = <<msg>>
===============================================================================
