------------------------------- MODULE MidiBase -------------------------------
(***************************************************************************)
(* Shared vocabulary of the helgoboss-midi specification.                   *)
(* The `@type` comments are Apalache type annotations (ignored by TLC).      *)
(*                                                                          *)
(* A short message is a triple <<status, data1, data2>> of naturals         *)
(* (status 128..255, data 0..127).  Absent values are None (= -1).          *)
(* Reports of the scanners are tuples so that JSON arrays recorded from the *)
(* implementation compare with `=`:                                         *)
(*   14-bit CC report : <<channel, msbControllerNumber, value>>             *)
(*   (N)RPN report    : <<channel, number, value, reg, is14, dataType>>     *)
(*        reg, is14 in {0,1}; dataType 0 = entry, 1 = increment, 2 = decr.  *)
(***************************************************************************)
EXTENDS Integers, Sequences

None == -1

Hi(v) == (v \div 128) % 128          \* high 7 bits of a 14-bit value
Lo(v) == v % 128                     \* low 7 bits
Join(h, l) == 128 * h + l            \* 14-bit value from two 7-bit halves

\* @type: (Seq(Int)) => Bool;
IsChannelMsg(m) == m[1] >= 128 /\ m[1] < 240
\* @type: (Seq(Int)) => Int;
MsgChannel(m)   == IF IsChannelMsg(m) THEN m[1] % 16 ELSE None
\* @type: (Seq(Int)) => Bool;
IsCC(m)         == m[1] \div 16 = 11
\* @type: (Seq(Int)) => Int;
CcNum(m)        == m[2]
\* @type: (Seq(Int)) => Int;
CcVal(m)        == m[3]
\* @type: (Int, Int, Int) => Seq(Int);
CC(c, n, v)     == <<176 + c, n, v>>

\* @type: (Int, Int, Int) => Seq(Int);
Msg3(s, d1, d2) == <<s, d1, d2>>

B2I(b) == IF b THEN 1 ELSE 0

\* (N)RPN report constructors
\* @type: (Int, Int, Int, Bool, Int) => Seq(Int);
Pn7(c, num, v, reg, dt) == <<c, num, v, B2I(reg), 0, dt>>
\* @type: (Int, Int, Int, Bool) => Seq(Int);
Pn14(c, num, v, reg)    == <<c, num, v, B2I(reg), 1, 0>>
DtEntry == 0
DtInc   == 1
DtDec   == 2

\* controller numbers with a role in (N)RPN traffic
PnControllers == {6, 38, 96, 97, 98, 99, 100, 101}
\* @type: (Seq(Int)) => Bool;
IsPnContrib(m)   == IsCC(m) /\ CcNum(m) \in PnControllers
\* @type: (Seq(Int)) => Bool;
IsCc14Contrib(m) == IsCC(m) /\ CcNum(m) <= 63
===============================================================================
