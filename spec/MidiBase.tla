------------------------------- MODULE MidiBase -------------------------------
(***************************************************************************)
(* Shared vocabulary of the helgoboss-midi specification.                   *)
(*                                                                          *)
(* A short message is a triple <<status, data1, data2>> of naturals         *)
(* (status 128..255, data 0..127).  Absent values are None (= -1).          *)
(* Reports of the scanners are tuples so that JSON arrays recorded from the *)
(* implementation compare with `=`:                                         *)
(*   14-bit CC report : <<channel, msbControllerNumber, value>>             *)
(*   (N)RPN report    : <<channel, number, value, reg, is14, dataType>>     *)
(*        reg, is14 in {0,1}; dataType 0 = entry, 1 = increment, 2 = decr.  *)
(***************************************************************************)
EXTENDS Integers, Sequences

None == -1

Hi(v) == (v \div 128) % 128          \* high 7 bits of a 14-bit value
Lo(v) == v % 128                     \* low 7 bits
Join(h, l) == 128 * h + l            \* 14-bit value from two 7-bit halves

IsChannelMsg(m) == m[1] >= 128 /\ m[1] < 240
MsgChannel(m)   == IF IsChannelMsg(m) THEN m[1] % 16 ELSE None
IsCC(m)         == m[1] \div 16 = 11
CcNum(m)        == m[2]
CcVal(m)        == m[3]
CC(c, n, v)     == <<176 + c, n, v>>

B2I(b) == IF b THEN 1 ELSE 0

\* (N)RPN report constructors
Pn7(c, num, v, reg, dt) == <<c, num, v, B2I(reg), 0, dt>>
Pn14(c, num, v, reg)    == <<c, num, v, B2I(reg), 1, 0>>
DtEntry == 0
DtInc   == 1
DtDec   == 2

\* controller numbers with a role in (N)RPN traffic
PnControllers == {6, 38, 96, 97, 98, 99, 100, 101}
IsPnContrib(m)   == IsCC(m) /\ CcNum(m) \in PnControllers
IsCc14Contrib(m) == IsCC(m) /\ CcNum(m) <= 63
===============================================================================
