------------------------------- MODULE MidiInts -------------------------------
(***************************************************************************)
(* The six restricted integer types (C04, C05).                            *)
(* T: 0 U4, 1 U7, 2 U14, 3 Channel, 4 KeyNumber, 5 ControllerNumber         *)
(* Source values are logged as (cls, v): cls = 0: v is the exact value;     *)
(* cls = 1 / -1: the value does not fit TLC's 32-bit integers (above /      *)
(* below); the rule is simply "huge => out of range for every target".      *)
(***************************************************************************)
EXTENDS Integers, Sequences

MaxOf(T) == CASE T \in {0, 3} -> 15 [] T \in {1, 4, 5} -> 127 [] T = 2 -> 16383
InRange(T, v) == v >= 0 /\ v <= MaxOf(T)
TryOk(T, cls, v) == cls = 0 /\ InRange(T, v)

(******************************** parsing **********************************)
(* chars: sequence of character codes.  Accepted: optional '+' followed by  *)
(* one or more ASCII digits whose value is in range.                         *)
IsDigit(c) == c >= 48 /\ c <= 57
Digits(cs) == IF cs # <<>> /\ cs[1] = 43 THEN Tail(cs) ELSE cs
IsNumeral(cs) == LET d == Digits(cs) IN d # <<>> /\ \A i \in 1..Len(d) : IsDigit(d[i])
RECURSIVE StripZeros(_)
StripZeros(d) == IF d # <<>> /\ d[1] = 48 THEN StripZeros(Tail(d)) ELSE d
RECURSIVE ValueOf(_, _)
ValueOf(d, acc) == IF d = <<>> THEN acc ELSE ValueOf(Tail(d), 10 * acc + (d[1] - 48))
\* value of a numeral, saturating: more than 5 significant digits is "too large" (99999 > every Max)
NumeralValue(cs) == LET d == StripZeros(Digits(cs)) IN IF Len(d) > 5 THEN 100000 ELSE ValueOf(d, 0)
ParseOk(T, cs) == IsNumeral(cs) /\ InRange(T, NumeralValue(cs))

(******************************* formatting ********************************)
RECURSIVE DigitsOf(_)
DigitsOf(v) == IF v < 10 THEN <<48 + v>> ELSE DigitsOf(v \div 10) \o <<48 + (v % 10)>>
===============================================================================
