--------------------------------- MODULE PnRun ---------------------------------
(***************************************************************************)
(* Running message sequences through the (N)RPN machine (recursive, hence  *)
(* kept apart from PnScanner.tla, which Apalache also reads).               *)
(***************************************************************************)
EXTENDS PnScanner

(* C10: running a sequence of messages through the machine *)
RECURSIVE PnRun(_, _)
PnRun(st, ms) ==      \* sequence of outs, one per message
    IF ms = <<>> THEN <<>>
    ELSE LET r == PnFeed(st, Head(ms)) IN <<r.out>> \o PnRun(r.st, Tail(ms))

RECURSIVE PnRunState(_, _)
PnRunState(st, ms) == IF ms = <<>> THEN st ELSE PnRunState(PnFeed(st, Head(ms)).st, Tail(ms))

\* documented forms the non-polling scanner inverts: 7-bit / inc / dec, and 14-bit LSB first
PnRoundTripOK(st, msg) ==
    LET e    == PnEncodeSeq(msg, "lsb")
        outs == PnRun(st, e)
    IN /\ \A i \in 1..(Len(e) - 1) : outs[i] = <<>>
       /\ outs[Len(e)] = <<msg>>
===============================================================================
