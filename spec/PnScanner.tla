------------------------------- MODULE PnScanner -------------------------------
(***************************************************************************)
(* ParameterNumberMessageScanner (no polling), one channel; one operator   *)
(* per process_* function of src/parameter_number_message_scanner.rs.      *)
(***************************************************************************)
EXTENDS MidiBase

\* @typeAlias: pnSt = { nm: Int, nl: Int, reg: Bool, vl: Int };
\* @typeAlias: pnRes = { st: $pnSt, out: Seq(Seq(Int)) };
\* @typeAlias: pnGhost = { nm: Int, nl: Int, kind: Bool, v38: Int };
PnAliases == TRUE

(*************************** the (N)RPN message ****************************)
(* msg = <<ch, num, val, reg, is14, dt>>                                   *)
\* @type: (Seq(Int)) => Bool;
PnValid(msg) ==
    /\ msg[1] \in 0..15 /\ msg[2] \in 0..16383 /\ msg[4] \in {0,1} /\ msg[5] \in {0,1}
    /\ msg[6] \in {0,1,2}
    /\ (msg[5] = 0 => msg[3] \in 0..127)
    /\ (msg[5] = 1 => msg[3] \in 0..16383 /\ msg[6] = DtEntry)

\* @type: (Int) => Int;
PnNumMsbCn(reg) == IF reg = 1 THEN 101 ELSE 99
\* @type: (Int) => Int;
PnNumLsbCn(reg) == IF reg = 1 THEN 100 ELSE 98

\* the four slots; NoMsg (the empty tuple) for an empty slot; order \in {"msb","lsb"}
\* @type: Seq(Int);
NoMsg == <<>>
\* @type: (Seq(Int), Str) => Seq(Seq(Int));
PnEncode(msg, order) ==
    LET c == msg[1]
        x == CC(c, PnNumMsbCn(msg[4]), Hi(msg[2]))
        y == CC(c, PnNumLsbCn(msg[4]), Lo(msg[2]))
    IN IF msg[6] = DtInc THEN <<x, y, CC(c, 96, Lo(msg[3])), NoMsg>>
       ELSE IF msg[6] = DtDec THEN <<x, y, CC(c, 97, Lo(msg[3])), NoMsg>>
       ELSE IF msg[5] = 0 THEN <<x, y, CC(c, 6, msg[3]), NoMsg>>
       ELSE IF order = "msb" THEN <<x, y, CC(c, 6, Hi(msg[3])), CC(c, 38, Lo(msg[3]))>>
       ELSE <<x, y, CC(c, 38, Lo(msg[3])), CC(c, 6, Hi(msg[3]))>>

\* the encoding as a plain sequence (empty slots dropped)
\* @type: (Seq(Int), Str) => Seq(Seq(Int));
PnEncodeSeq(msg, order) ==
    LET e == PnEncode(msg, order) IN IF e[4] = NoMsg THEN <<e[1], e[2], e[3]>> ELSE e

(******************************* the machine *******************************)
\* @type: $pnSt;
PnInit == [nm |-> None, nl |-> None, reg |-> FALSE, vl |-> None]

\* @type: ($pnSt, Int, Bool) => $pnRes;
PnProcessNumberLsb(st, b, reg) == [st |-> [st EXCEPT !.vl = None, !.nl = b, !.reg = reg], out |-> <<>>]
\* @type: ($pnSt, Int, Bool) => $pnRes;
PnProcessNumberMsb(st, b, reg) == [st |-> [st EXCEPT !.vl = None, !.nm = b, !.reg = reg], out |-> <<>>]
\* @type: ($pnSt, Int) => $pnRes;
PnProcessValueLsb(st, b)       == [st |-> [st EXCEPT !.vl = b], out |-> <<>>]

\* @type: ($pnSt) => Int;
PnBuildNumber(st) == IF st.nl = None \/ st.nm = None THEN None ELSE Join(st.nm, st.nl)

\* @type: ($pnSt, Int, Int) => $pnRes;
PnProcessValueMsb(st, c, b) ==
    IF PnBuildNumber(st) = None THEN [st |-> st, out |-> <<>>]
    ELSE IF st.vl # None
         THEN [st |-> st, out |-> << Pn14(c, PnBuildNumber(st), Join(b, st.vl), st.reg) >>]
         ELSE [st |-> st, out |-> << Pn7(c, PnBuildNumber(st), b, st.reg, DtEntry) >>]

\* @type: ($pnSt, Int, Int, Int) => $pnRes;
PnProcessValueIncDec(st, c, dt, b) ==
    IF PnBuildNumber(st) = None THEN [st |-> st, out |-> <<>>]
    ELSE [st |-> st, out |-> << Pn7(c, PnBuildNumber(st), b, st.reg, dt) >>]

\* @type: ($pnSt, Seq(Int)) => $pnRes;
PnFeed(st, m) ==
    IF ~IsCC(m) THEN [st |-> st, out |-> <<>>]
    ELSE LET n == CcNum(m)  v == CcVal(m)  c == MsgChannel(m) IN
         CASE n = 98  -> PnProcessNumberLsb(st, v, FALSE)
           [] n = 99  -> PnProcessNumberMsb(st, v, FALSE)
           [] n = 100 -> PnProcessNumberLsb(st, v, TRUE)
           [] n = 101 -> PnProcessNumberMsb(st, v, TRUE)
           [] n = 38  -> PnProcessValueLsb(st, v)
           [] n = 6   -> PnProcessValueMsb(st, c, v)
           [] n = 96  -> PnProcessValueIncDec(st, c, DtInc, v)
           [] n = 97  -> PnProcessValueIncDec(st, c, DtDec, v)
           [] OTHER   -> [st |-> st, out |-> <<>>]

\* @type: ($pnSt) => $pnSt;
PnReset(st) == PnInit

(***************** C11 monitor, ghost form (property text) *****************)
(* nm, nl : latest number MSB (99/101) / LSB (98/100) since creation/reset *)
(* kind   : the most recent number byte was 100/101 (registered)           *)
(* v38    : the most recent controller-38 value received AFTER the most    *)
(*          recent number byte, None if there is none                      *)
\* @type: $pnGhost;
PnGhostInit == [nm |-> None, nl |-> None, kind |-> FALSE, v38 |-> None]
\* @type: ($pnGhost, Seq(Int)) => $pnGhost;
PnGhostFeed(g, m) ==
    IF ~IsCC(m) THEN g
    ELSE LET n == CcNum(m) v == CcVal(m) IN
         CASE n \in {99, 101} -> [nm |-> v, nl |-> g.nl, kind |-> (n = 101), v38 |-> None]
           [] n \in {98, 100} -> [nm |-> g.nm, nl |-> v, kind |-> (n = 100), v38 |-> None]
           [] n = 38          -> [g EXCEPT !.v38 = v]
           [] OTHER           -> g
\* @type: ($pnGhost) => $pnGhost;
PnGhostReset(g) == PnGhostInit

\* @type: ($pnGhost, Seq(Int)) => Seq(Seq(Int));
PnExpected(g, m) ==
    IF ~IsCC(m) \/ CcNum(m) \notin {6, 96, 97} \/ g.nm = None \/ g.nl = None THEN <<>>
    ELSE LET c == MsgChannel(m)  num == 128 * g.nm + g.nl  v == CcVal(m) IN
         CASE CcNum(m) = 96 -> << Pn7(c, num, v, g.kind, DtInc) >>
           [] CcNum(m) = 97 -> << Pn7(c, num, v, g.kind, DtDec) >>
           [] OTHER -> IF g.v38 # None THEN << Pn14(c, num, 128 * v + g.v38, g.kind) >>
                                       ELSE << Pn7(c, num, v, g.kind, DtEntry) >>

\* @type: (Seq(Int)) => Bool;
PnNonContributing(m) == ~IsCC(m) \/ CcNum(m) \notin PnControllers

===============================================================================
