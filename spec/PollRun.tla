-------------------------------- MODULE PollRun --------------------------------
(***************************************************************************)
(* Running message sequences through the polling machine (recursive, hence *)
(* kept apart from PollingScanner.tla, which Apalache also reads).          *)
(***************************************************************************)
EXTENDS PollingScanner

(* run a sequence of messages, then wait `wait` ms and poll: used for C12   *)
RECURSIVE PollRun(_, _, _)
PollRun(st, ms, now) ==
    IF ms = <<>> THEN [st |-> st, outs |-> <<>>]
    ELSE LET r == PollFeed(st, Head(ms), now)
             rest == PollRun(r.st, Tail(ms), now)
         IN [st |-> rest.st, outs |-> <<r.out>> \o rest.outs]

===============================================================================
