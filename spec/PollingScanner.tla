---------------------------- MODULE PollingScanner ----------------------------
(***************************************************************************)
(* PollingParameterNumberMessageScanner, one channel.                      *)
(* One operator per process_* function and one IF/CASE branch per match    *)
(* arm of src/polling_parameter_number_message_scanner.rs.  Time is the    *)
(* explicit argument `now` (mock clock, milliseconds), the timeout `to` is *)
(* a natural number of milliseconds or Inf.                                *)
(***************************************************************************)
EXTENDS MidiBase

Inf == -1                                       \* Duration::MAX
\* @type: (Int, Int, Int) => Bool;
Expired(at, now, to) == to # Inf /\ now - at >= to    \* !(elapsed < timeout)

(******************************* state shapes ******************************)
(* One record shape for all four phases (unused fields hold None / FALSE / 0) so that the   *)
(* specification is typable for Apalache; the constructors below keep the phases readable.  *)
\* @typeAlias: pollSt = { ph: Str, fb: Int, reg: Bool, ismsb: Bool, nm: Int, nl: Int, at: Int, b: Int, vm: Int, vl: Int };
\* @typeAlias: pollRes = { st: $pollSt, out: Seq(Seq(Int)) };
\* @typeAlias: pollGhost = { nm: Int, nl: Int, kind: Bool, km: Bool, kl: Bool, c6: Int, c6t: Int, c38: Int, c38t: Int, p38: Bool, rep: Bool, last: Str, late38: Bool, owe: Bool };
PollAliases == TRUE

\* @type: $pollSt;
Blank == [ph |-> "WNC", fb |-> None, reg |-> FALSE, ismsb |-> FALSE, nm |-> None, nl |-> None,
          at |-> 0, b |-> None, vm |-> None, vl |-> None]
\* @type: (Int, Bool, Bool) => $pollSt;
Wnc(fb, reg, ismsb)          == [Blank EXCEPT !.ph = "WNC", !.fb = fb, !.reg = reg, !.ismsb = ismsb]
\* @type: (Int, Int, Bool) => $pollSt;
Wfv(nm, nl, reg)             == [Blank EXCEPT !.ph = "WFV", !.nm = nm, !.nl = nl, !.reg = reg]
\* @type: (Int, Int, Bool, Int, Int, Bool) => $pollSt;
Vp(nm, nl, reg, at, b, ismsb) == [Blank EXCEPT !.ph = "VP", !.nm = nm, !.nl = nl, !.reg = reg,
                                              !.at = at, !.b = b, !.ismsb = ismsb]
\* @type: (Int, Int, Bool, Int, Int) => $pollSt;
Fvc(nm, nl, reg, vm, vl)     == [Blank EXCEPT !.ph = "FVC", !.nm = nm, !.nl = nl, !.reg = reg,
                                              !.vm = vm, !.vl = vl]
\* @type: $pollSt;
PollInit == Wnc(None, FALSE, FALSE)

\* @type: ($pollSt) => Int;
PNum(st) == Join(st.nm, st.nl)
\* @type: ($pollSt) => $pollRes;
Keep(st) == [st |-> st, out |-> <<>>]

\* ValuePendingState::resolve
\* @type: ($pollSt, Int) => Seq(Seq(Int));
Resolve(st, c) == IF st.ismsb THEN << Pn7(c, PNum(st), st.b, st.reg, DtEntry) >> ELSE <<>>

(***************************** process_number_byte *************************)
\* @type: ($pollSt, Int, Bool, Bool, Int) => $pollRes;
PollProcessNumberByte(st, byte, reg, ismsb, c) ==
    CASE st.ph = "WNC" ->
           IF st.fb # None
           THEN IF st.ismsb = ismsb
                THEN [st |-> Wnc(byte, reg, ismsb), out |-> <<>>]         \* overwrite
                ELSE [st |-> Wfv(IF st.ismsb THEN st.fb ELSE byte,          \* complete
                                 IF st.ismsb THEN byte ELSE st.fb, reg), out |-> <<>>]
           ELSE [st |-> Wnc(byte, reg, ismsb), out |-> <<>>]              \* first byte
      [] st.ph \in {"WFV", "FVC"} ->
           [st |-> Wfv(IF ismsb THEN byte ELSE st.nm, IF ismsb THEN st.nl ELSE byte, reg),
            out |-> <<>>]
      [] st.ph = "VP" ->
           [st |-> Wfv(IF ismsb THEN byte ELSE st.nm, IF ismsb THEN st.nl ELSE byte, reg),
            out |-> Resolve(st, c)]

(****************************** process_value_lsb **************************)
\* @type: ($pollSt, Int, Int, Int) => $pollRes;
PollProcessValueLsb(st, c, v, now) ==
    CASE st.ph = "WNC" -> Keep(st)
      [] st.ph = "WFV" -> [st |-> Vp(st.nm, st.nl, st.reg, now, v, FALSE), out |-> <<>>]
      [] st.ph = "VP"  ->
           IF st.ismsb
           THEN [st |-> Fvc(st.nm, st.nl, st.reg, st.b, v),
                 out |-> << Pn14(c, PNum(st), Join(st.b, v), st.reg) >>]
           ELSE [st |-> Wfv(st.nm, st.nl, st.reg), out |-> <<>>]           \* LSB after LSB
      [] st.ph = "FVC" ->
           [st |-> Fvc(st.nm, st.nl, st.reg, st.vm, v),
            out |-> << Pn14(c, PNum(st), Join(st.vm, v), st.reg) >>]      \* fine adjustment

(****************************** process_value_msb **************************)
\* @type: ($pollSt, Int, Int, Int) => $pollRes;
PollProcessValueMsb(st, c, v, now) ==
    CASE st.ph = "WNC" -> Keep(st)
      [] st.ph = "WFV" -> [st |-> Vp(st.nm, st.nl, st.reg, now, v, TRUE), out |-> <<>>]
      [] st.ph = "VP"  ->
           IF st.ismsb
           THEN [st |-> Vp(st.nm, st.nl, st.reg, now, v, TRUE),
                 out |-> << Pn7(c, PNum(st), st.b, st.reg, DtEntry) >>]
           ELSE [st |-> Fvc(st.nm, st.nl, st.reg, v, st.b),
                 out |-> << Pn14(c, PNum(st), Join(v, st.b), st.reg) >>]
      [] st.ph = "FVC" -> [st |-> Vp(st.nm, st.nl, st.reg, now, v, TRUE), out |-> <<>>]

(**************************** process_value_inc_dec ************************)
\* @type: ($pollSt, Int, Int, Int) => $pollRes;
PollProcessValueIncDec(st, c, dt, v) ==
    CASE st.ph = "WNC" -> Keep(st)
      [] st.ph = "WFV" -> [st |-> st, out |-> << Pn7(c, PNum(st), v, st.reg, dt) >>]
      [] st.ph = "VP"  ->
           IF st.ismsb
           THEN [st |-> Wfv(st.nm, st.nl, st.reg),
                 out |-> << Pn7(c, PNum(st), st.b, st.reg, DtEntry),
                            Pn7(c, PNum(st), v, st.reg, dt) >>]
           ELSE [st |-> Wfv(st.nm, st.nl, st.reg), out |-> <<>>]
      [] st.ph = "FVC" -> [st |-> Wfv(st.nm, st.nl, st.reg),
                           out |-> << Pn7(c, PNum(st), v, st.reg, dt) >>]

(************************************ feed *********************************)
\* @type: ($pollSt, Seq(Int), Int) => $pollRes;
PollFeed(st, m, now) ==
    IF ~IsCC(m) THEN Keep(st)
    ELSE LET n == CcNum(m)  v == CcVal(m)  c == MsgChannel(m) IN
         CASE n = 98  -> PollProcessNumberByte(st, v, FALSE, FALSE, c)
           [] n = 99  -> PollProcessNumberByte(st, v, FALSE, TRUE, c)
           [] n = 100 -> PollProcessNumberByte(st, v, TRUE, FALSE, c)
           [] n = 101 -> PollProcessNumberByte(st, v, TRUE, TRUE, c)
           [] n = 38  -> PollProcessValueLsb(st, c, v, now)
           [] n = 6   -> PollProcessValueMsb(st, c, v, now)
           [] n = 96  -> PollProcessValueIncDec(st, c, DtInc, v)
           [] n = 97  -> PollProcessValueIncDec(st, c, DtDec, v)
           [] OTHER   -> Keep(st)

(************************************ poll *********************************)
\* @type: ($pollSt, Int, Int, Int) => $pollRes;
PollPoll(st, c, now, to) ==
    IF st.ph # "VP" THEN Keep(st)
    ELSE IF ~Expired(st.at, now, to) THEN Keep(st)
    ELSE [st |-> Wfv(st.nm, st.nl, st.reg), out |-> Resolve(st, c)]

\* @type: ($pollSt) => $pollSt;
PollReset(st) == PollInit

(***************************************************************************)
(* C13 / C14 monitor, ghost form.  Written from the property text (DESIGN   *)
(* Appendix A), NOT from the code: it observes only inputs, the time of     *)
(* each call and the reports the call produced.                             *)
(***************************************************************************)
\* @type: $pollGhost;
PgInit == [nm |-> None, nl |-> None, kind |-> FALSE, km |-> FALSE, kl |-> FALSE,
           c6 |-> None, c6t |-> 0, c38 |-> None, c38t |-> 0, p38 |-> FALSE,
           rep |-> FALSE, last |-> "none", late38 |-> FALSE, owe |-> FALSE]
(* km / kl : the latest number MSB / LSB byte was a registered one (101 / 100)              *)
(* p38     : the most recent controller-38 byte was reported in a 14-bit value by its own   *)
(*           feed, i.e. it is not an UNPAIRED data entry LSB                                *)

\* @type: ($pollGhost) => Bool;
PgComplete(g) == g.nm # None /\ g.nl # None
\* @type: ($pollGhost) => Int;
PgNumber(g)   == 128 * g.nm + g.nl
\* the latest MSB and LSB bytes are of different kinds (one registered, one not): the property text does
\* not say which flag such a number has, nor whether it counts as complete - nothing is demanded then
\* @type: ($pollGhost) => Bool;
PgMixed(g)    == PgComplete(g) /\ g.km # g.kl
\* @type: (Int, Int, Int) => Bool;
Late(t0, now, to) == to # Inf /\ now - t0 >= to

\* @type: (Seq(Int)) => Bool;
IsEntry7(r)  == r[5] = 0 /\ r[6] = DtEntry
\* @type: (Seq(Int)) => Bool;
IsEntry14(r) == r[5] = 1
\* @type: (Seq(Int)) => Bool;
IsIncDec(r)  == r[5] = 0 /\ r[6] \in {DtInc, DtDec}
\* @type: (Seq(Seq(Int))) => Bool;
Has14(o)     == \E i \in DOMAIN o : IsEntry14(o[i])
\* @type: (Seq(Seq(Int))) => Bool;
HasEntry(o)  == \E i \in DOMAIN o : IsEntry7(o[i]) \/ IsEntry14(o[i])

\* clauses on every single report r of a call on channel c (a = the fed message or <<>> for poll)
\* @type: ($pollGhost, Int, Seq(Int), Seq(Int)) => Set(Str);
ReportClauses(g, c, a, r) ==
    (IF PgComplete(g) /\ r[1] = c /\ r[2] = PgNumber(g) /\ (PgMixed(g) \/ r[4] = B2I(g.kind))
        THEN {} ELSE {"C14a"})
    \cup
    (IF IsIncDec(r) =>
          /\ a # <<>> /\ IsCC(a)
          /\ CcNum(a) = (IF r[6] = DtInc THEN 96 ELSE 97) /\ r[3] = CcVal(a)
        THEN {} ELSE {"C14b"})
    \cup
    (IF IsEntry7(r) => (g.c6 # None /\ r[3] = g.c6 /\ ~g.rep)
        THEN {} ELSE {"C14c"})
    \cup
    (IF IsEntry14(r) =>
          LET hi == IF a # <<>> /\ IsCC(a) /\ CcNum(a) = 6  THEN CcVal(a) ELSE g.c6
              lo == IF a # <<>> /\ IsCC(a) /\ CcNum(a) = 38 THEN CcVal(a) ELSE g.c38
          IN r[6] = DtEntry /\ hi # None /\ lo # None /\ r[3] = 128 * hi + lo
        THEN {} ELSE {"C14d"})
    \cup
    (IF r[5] \in {0, 1} /\ r[6] \in {0, 1, 2} /\ (r[5] = 0 => r[3] <= 127) THEN {} ELSE {"C14d"})

\* @type: ($pollGhost, Seq(Seq(Int))) => Bool;
CarriesC6(g, o) ==
    \E i \in DOMAIN o : (IsEntry7(o[i]) /\ o[i][3] = g.c6) \/ (IsEntry14(o[i]) /\ o[i][3] \div 128 = g.c6)

\* set of violated clause names for a feed of message m (on its channel) reporting o
\* @type: ($pollGhost, Seq(Int), Seq(Seq(Int)), Bool, Int, Int) => Set(Str);
PollFeedViolations(g, m, o, gap, now, to) ==
    LET c == MsgChannel(m) IN
    (UNION {ReportClauses(g, c, m, o[i]) : i \in DOMAIN o})
    \cup
    (IF (g.owe /\ IsPnContrib(m)) => CarriesC6(g, o) THEN {} ELSE {"C14e"})
    \cup
    (IF /\ Len(o) <= 2 /\ ~gap
        /\ (Len(o) = 2 => /\ IsCC(m) /\ CcNum(m) \in {96, 97}
                          /\ IsEntry7(o[1]) /\ IsIncDec(o[2]))
        THEN {} ELSE {"C14f"})
    \cup
    (IF (IsCC(m) /\ CcNum(m) = 6 /\ g.last = "cc38" /\ g.late38) => ~Has14(o)
        THEN {} ELSE {"C13l"})

\* set of violated clause names for a poll on channel c reporting o
\* @type: ($pollGhost, Int, Seq(Seq(Int)), Int, Int) => Set(Str);
PollPollViolations(g, c, o, now, to) ==
    (UNION {ReportClauses(g, c, <<>>, o[i]) : i \in DOMAIN o})
    \cup
    (IF (g.owe /\ Late(g.c6t, now, to)) => CarriesC6(g, o) THEN {} ELSE {"C14e"})
    \cup
    \* C13: a pending MSB whose timeout has passed is returned (once: owe is consumed) ...
    (IF (g.owe /\ Late(g.c6t, now, to)) => o = << Pn7(c, PgNumber(g), g.c6, g.kind, DtEntry) >>
        THEN {} ELSE {"C13p"})
    \cup
    \* ... and poll returns a message ONLY IF it is the 7-bit data entry of the most recent controller-6
    \* byte and at least the timeout has passed since that byte was fed
    (IF o # <<>> => /\ Len(o) = 1 /\ IsEntry7(o[1]) /\ g.c6 # None /\ o[1][3] = g.c6
                    /\ Late(g.c6t, now, to)
        THEN {} ELSE {"C13p"})

\* @type: ($pollGhost, Seq(Int), Seq(Seq(Int)), Int) => $pollGhost;
PgFeed(g, m, o, now) ==
    IF ~IsPnContrib(m) THEN g
    ELSE LET n == CcNum(m)  v == CcVal(m)
             rep2 == g.rep \/ HasEntry(o) IN
         CASE n \in {99, 101} -> [g EXCEPT !.nm = v, !.kind = (n = 101), !.km = (n = 101), !.last = "num",
                                           !.owe = FALSE, !.late38 = FALSE, !.rep = rep2]
           [] n \in {98, 100} -> [g EXCEPT !.nl = v, !.kind = (n = 100), !.kl = (n = 100), !.last = "num",
                                           !.owe = FALSE, !.late38 = FALSE, !.rep = rep2]
           [] n = 6  -> [g EXCEPT !.c6 = v, !.c6t = now, !.rep = Has14(o),
                                  !.owe = PgComplete(g) /\ ~PgMixed(g) /\ ~Has14(o),
                                  !.last = "cc6", !.late38 = FALSE]
           [] n = 38 -> [g EXCEPT !.c38 = v, !.c38t = now, !.p38 = Has14(o), !.last = "cc38",
                                  !.owe = FALSE, !.late38 = FALSE, !.rep = rep2]
           [] OTHER  -> [g EXCEPT !.last = "incdec", !.owe = FALSE, !.late38 = FALSE,
                                  !.rep = rep2]

\* @type: ($pollGhost, Seq(Seq(Int)), Int, Int) => $pollGhost;
PgPoll(g, o, now, to) ==
    [g EXCEPT !.rep    = g.rep \/ HasEntry(o),
              !.owe    = g.owe /\ ~Late(g.c6t, now, to),
              !.late38 = g.late38 \/ (g.last = "cc38" /\ ~g.p38 /\ Late(g.c38t, now, to))]

\* @type: ($pollGhost) => $pollGhost;
PgReset(g) == PgInit

\* "early" poll in the sense of the property: nothing that is pending has reached its timeout
\* @type: ($pollGhost, Int, Int) => Bool;
PollIsEarly(g, now, to) ==
    /\ (g.last = "cc6"  => ~Late(g.c6t, now, to))
    /\ (g.last = "cc38" => ~Late(g.c38t, now, to))

===============================================================================
