---------------------------- MODULE PollingScanner ----------------------------
(***************************************************************************)
(* PollingParameterNumberMessageScanner, one channel.                      *)
(* One operator per process_* function and one IF/CASE branch per match    *)
(* arm of src/polling_parameter_number_message_scanner.rs.  Time is the    *)
(* explicit argument `now` (mock clock, milliseconds), the timeout `to` is *)
(* a natural number of milliseconds or Inf.                                *)
(***************************************************************************)
EXTENDS MidiBase

Inf == -1                                       \* Duration::MAX
Expired(at, now, to) == to # Inf /\ now - at >= to    \* !(elapsed < timeout)

(******************************* state shapes ******************************)
Wnc(fb, reg, ismsb)          == [ph |-> "WNC", fb |-> fb, reg |-> reg, ismsb |-> ismsb]
Wfv(nm, nl, reg)             == [ph |-> "WFV", nm |-> nm, nl |-> nl, reg |-> reg]
Vp(nm, nl, reg, at, b, ismsb) == [ph |-> "VP", nm |-> nm, nl |-> nl, reg |-> reg,
                                  at |-> at, b |-> b, ismsb |-> ismsb]
Fvc(nm, nl, reg, vm, vl)     == [ph |-> "FVC", nm |-> nm, nl |-> nl, reg |-> reg,
                                  vm |-> vm, vl |-> vl]
PollInit == Wnc(None, FALSE, FALSE)

PNum(st) == Join(st.nm, st.nl)
Keep(st) == [st |-> st, out |-> <<>>]

\* ValuePendingState::resolve
Resolve(st, c) == IF st.ismsb THEN << Pn7(c, PNum(st), st.b, st.reg, DtEntry) >> ELSE <<>>

(***************************** process_number_byte *************************)
PollProcessNumberByte(st, byte, reg, ismsb, c) ==
    CASE st.ph = "WNC" ->
           IF st.fb # None
           THEN IF st.ismsb = ismsb
                THEN [st |-> Wnc(byte, reg, ismsb), out |-> <<>>]         \* overwrite
                ELSE [st |-> Wfv(IF st.ismsb THEN st.fb ELSE byte,          \* complete
                                 IF st.ismsb THEN byte ELSE st.fb, reg), out |-> <<>>]
           ELSE [st |-> Wnc(byte, reg, ismsb), out |-> <<>>]              \* first byte
      [] st.ph \in {"WFV", "FVC"} ->
           [st |-> Wfv(IF ismsb THEN byte ELSE st.nm, IF ismsb THEN st.nl ELSE byte, reg),
            out |-> <<>>]
      [] st.ph = "VP" ->
           [st |-> Wfv(IF ismsb THEN byte ELSE st.nm, IF ismsb THEN st.nl ELSE byte, reg),
            out |-> Resolve(st, c)]

(****************************** process_value_lsb **************************)
PollProcessValueLsb(st, c, v, now) ==
    CASE st.ph = "WNC" -> Keep(st)
      [] st.ph = "WFV" -> [st |-> Vp(st.nm, st.nl, st.reg, now, v, FALSE), out |-> <<>>]
      [] st.ph = "VP"  ->
           IF st.ismsb
           THEN [st |-> Fvc(st.nm, st.nl, st.reg, st.b, v),
                 out |-> << Pn14(c, PNum(st), Join(st.b, v), st.reg) >>]
           ELSE [st |-> Wfv(st.nm, st.nl, st.reg), out |-> <<>>]           \* LSB after LSB
      [] st.ph = "FVC" ->
           [st |-> Fvc(st.nm, st.nl, st.reg, st.vm, v),
            out |-> << Pn14(c, PNum(st), Join(st.vm, v), st.reg) >>]      \* fine adjustment

(****************************** process_value_msb **************************)
PollProcessValueMsb(st, c, v, now) ==
    CASE st.ph = "WNC" -> Keep(st)
      [] st.ph = "WFV" -> [st |-> Vp(st.nm, st.nl, st.reg, now, v, TRUE), out |-> <<>>]
      [] st.ph = "VP"  ->
           IF st.ismsb
           THEN [st |-> Vp(st.nm, st.nl, st.reg, now, v, TRUE),
                 out |-> << Pn7(c, PNum(st), st.b, st.reg, DtEntry) >>]
           ELSE [st |-> Fvc(st.nm, st.nl, st.reg, v, st.b),
                 out |-> << Pn14(c, PNum(st), Join(v, st.b), st.reg) >>]
      [] st.ph = "FVC" -> [st |-> Vp(st.nm, st.nl, st.reg, now, v, TRUE), out |-> <<>>]

(**************************** process_value_inc_dec ************************)
PollProcessValueIncDec(st, c, dt, v) ==
    CASE st.ph = "WNC" -> Keep(st)
      [] st.ph = "WFV" -> [st |-> st, out |-> << Pn7(c, PNum(st), v, st.reg, dt) >>]
      [] st.ph = "VP"  ->
           IF st.ismsb
           THEN [st |-> Wfv(st.nm, st.nl, st.reg),
                 out |-> << Pn7(c, PNum(st), st.b, st.reg, DtEntry),
                            Pn7(c, PNum(st), v, st.reg, dt) >>]
           ELSE [st |-> Wfv(st.nm, st.nl, st.reg), out |-> <<>>]
      [] st.ph = "FVC" -> [st |-> Wfv(st.nm, st.nl, st.reg),
                           out |-> << Pn7(c, PNum(st), v, st.reg, dt) >>]

(************************************ feed *********************************)
PollFeed(st, m, now) ==
    IF ~IsCC(m) THEN Keep(st)
    ELSE LET n == CcNum(m)  v == CcVal(m)  c == MsgChannel(m) IN
         CASE n = 98  -> PollProcessNumberByte(st, v, FALSE, FALSE, c)
           [] n = 99  -> PollProcessNumberByte(st, v, FALSE, TRUE, c)
           [] n = 100 -> PollProcessNumberByte(st, v, TRUE, FALSE, c)
           [] n = 101 -> PollProcessNumberByte(st, v, TRUE, TRUE, c)
           [] n = 38  -> PollProcessValueLsb(st, c, v, now)
           [] n = 6   -> PollProcessValueMsb(st, c, v, now)
           [] n = 96  -> PollProcessValueIncDec(st, c, DtInc, v)
           [] n = 97  -> PollProcessValueIncDec(st, c, DtDec, v)
           [] OTHER   -> Keep(st)

(************************************ poll *********************************)
PollPoll(st, c, now, to) ==
    IF st.ph # "VP" THEN Keep(st)
    ELSE IF ~Expired(st.at, now, to) THEN Keep(st)
    ELSE [st |-> Wfv(st.nm, st.nl, st.reg), out |-> Resolve(st, c)]

PollReset(st) == PollInit

(***************************************************************************)
(* C13 / C14 monitor, ghost form.  Written from the property text (DESIGN   *)
(* Appendix A), NOT from the code: it observes only inputs, the time of     *)
(* each call and the reports the call produced.                             *)
(***************************************************************************)
PgInit == [nm |-> None, nl |-> None, kind |-> FALSE,
           c6 |-> None, c6t |-> 0, c38 |-> None, c38t |-> 0,
           rep |-> FALSE, last |-> "none", late38 |-> FALSE, owe |-> FALSE]

PgComplete(g) == g.nm # None /\ g.nl # None
PgNumber(g)   == 128 * g.nm + g.nl
Late(t0, now, to) == to # Inf /\ now - t0 >= to

IsEntry7(r)  == r[5] = 0 /\ r[6] = DtEntry
IsEntry14(r) == r[5] = 1
IsIncDec(r)  == r[5] = 0 /\ r[6] \in {DtInc, DtDec}
Has14(o)     == \E i \in 1..Len(o) : IsEntry14(o[i])
HasEntry(o)  == \E i \in 1..Len(o) : IsEntry7(o[i]) \/ IsEntry14(o[i])

\* clauses on every single report r of a call on channel c (a = the fed message or <<>> for poll)
ReportClauses(g, c, a, r) ==
    (IF PgComplete(g) /\ r[1] = c /\ r[2] = PgNumber(g) /\ r[4] = B2I(g.kind)
        THEN {} ELSE {"C14a"})
    \cup
    (IF IsIncDec(r) =>
          /\ a # <<>> /\ IsCC(a)
          /\ CcNum(a) = (IF r[6] = DtInc THEN 96 ELSE 97) /\ r[3] = CcVal(a)
        THEN {} ELSE {"C14b"})
    \cup
    (IF IsEntry7(r) => (g.c6 # None /\ r[3] = g.c6 /\ ~g.rep)
        THEN {} ELSE {"C14c"})
    \cup
    (IF IsEntry14(r) =>
          LET hi == IF a # <<>> /\ IsCC(a) /\ CcNum(a) = 6  THEN CcVal(a) ELSE g.c6
              lo == IF a # <<>> /\ IsCC(a) /\ CcNum(a) = 38 THEN CcVal(a) ELSE g.c38
          IN r[6] = DtEntry /\ hi # None /\ lo # None /\ r[3] = 128 * hi + lo
        THEN {} ELSE {"C14d"})
    \cup
    (IF r[5] \in {0, 1} /\ r[6] \in {0, 1, 2} /\ (r[5] = 0 => r[3] <= 127) THEN {} ELSE {"C14d"})

CarriesC6(g, o) ==
    \E i \in 1..Len(o) : \/ IsEntry7(o[i]) /\ o[i][3] = g.c6
                         \/ IsEntry14(o[i]) /\ o[i][3] \div 128 = g.c6

\* set of violated clause names for a feed of message m (on its channel) reporting o
PollFeedViolations(g, m, o, gap, now, to) ==
    LET c == MsgChannel(m) IN
    (UNION {ReportClauses(g, c, m, o[i]) : i \in 1..Len(o)})
    \cup
    (IF (g.owe /\ IsPnContrib(m)) => CarriesC6(g, o) THEN {} ELSE {"C14e"})
    \cup
    (IF /\ Len(o) <= 2 /\ ~gap
        /\ (Len(o) = 2 => /\ IsCC(m) /\ CcNum(m) \in {96, 97}
                          /\ IsEntry7(o[1]) /\ IsIncDec(o[2]))
        /\ (~IsPnContrib(m) => o = <<>>)
        THEN {} ELSE {"C14f"})
    \cup
    (IF (IsCC(m) /\ CcNum(m) = 6 /\ g.last = "cc38" /\ g.late38) => ~Has14(o)
        THEN {} ELSE {"C13l"})

\* set of violated clause names for a poll on channel c reporting o
PollPollViolations(g, c, o, now, to) ==
    (UNION {ReportClauses(g, c, <<>>, o[i]) : i \in 1..Len(o)})
    \cup
    (IF (g.owe /\ Late(g.c6t, now, to)) => CarriesC6(g, o) THEN {} ELSE {"C14e"})
    \cup
    (IF o = (IF g.owe /\ Late(g.c6t, now, to)
             THEN << Pn7(c, PgNumber(g), g.c6, g.kind, DtEntry) >> ELSE <<>>)
        THEN {} ELSE {"C13p"})

PgFeed(g, m, o, now) ==
    IF ~IsPnContrib(m) THEN g
    ELSE LET n == CcNum(m)  v == CcVal(m)
             rep2 == g.rep \/ HasEntry(o) IN
         CASE n \in {99, 101} -> [g EXCEPT !.nm = v, !.kind = (n = 101), !.last = "num",
                                           !.owe = FALSE, !.late38 = FALSE, !.rep = rep2]
           [] n \in {98, 100} -> [g EXCEPT !.nl = v, !.kind = (n = 100), !.last = "num",
                                           !.owe = FALSE, !.late38 = FALSE, !.rep = rep2]
           [] n = 6  -> [g EXCEPT !.c6 = v, !.c6t = now, !.rep = Has14(o),
                                  !.owe = PgComplete(g) /\ ~Has14(o),
                                  !.last = "cc6", !.late38 = FALSE]
           [] n = 38 -> [g EXCEPT !.c38 = v, !.c38t = now, !.last = "cc38",
                                  !.owe = FALSE, !.late38 = FALSE, !.rep = rep2]
           [] OTHER  -> [g EXCEPT !.last = "incdec", !.owe = FALSE, !.late38 = FALSE,
                                  !.rep = rep2]

PgPoll(g, o, now, to) ==
    [g EXCEPT !.rep    = g.rep \/ HasEntry(o),
              !.owe    = g.owe /\ ~Late(g.c6t, now, to),
              !.late38 = g.late38 \/ (g.last = "cc38" /\ Late(g.c38t, now, to))]

PgReset(g) == PgInit

\* "early" poll in the sense of the property: nothing that is pending has reached its timeout
PollIsEarly(g, now, to) ==
    /\ (g.owe => ~Late(g.c6t, now, to))
    /\ (g.last = "cc38" => ~Late(g.c38t, now, to))

(* run a sequence of messages, then wait `wait` ms and poll: used for C12   *)
RECURSIVE PollRun(_, _, _)
PollRun(st, ms, now) ==
    IF ms = <<>> THEN [st |-> st, outs |-> <<>>]
    ELSE LET r == PollFeed(st, Head(ms), now)
             rest == PollRun(r.st, Tail(ms), now)
         IN [st |-> rest.st, outs |-> <<r.out>> \o rest.outs]
===============================================================================
