------------------------------- MODULE ShortMsg -------------------------------
(***************************************************************************)
(* The MIDI 1.0 status table for short messages, transcribed from the      *)
(* standard (and from the statements of properties C01, C02, C03, C06),    *)
(* NOT from the code.  All operators are constant-level.                    *)
(*                                                                          *)
(* A message is its byte triple (s, d1, d2).  Encodings used in rows:       *)
(*  type        : the ShortMessageType discriminant (0x80, 0x90 .. 0xFF)    *)
(*  super type  : 0 ChannelVoice 1 ChannelMode 2 SystemCommon               *)
(*                3 SystemRealTime 4 SystemExclusive                         *)
(*  main        : 0 Channel 1 System                                         *)
(*  fuzzy super : 0 Channel 1 SystemCommon 2 SystemRealTime 3 SysExclusive   *)
(*  structured  : <<variant, f1, f2, f3>>, variants numbered in the order    *)
(*                of the enum StructuredShortMessage                          *)
(***************************************************************************)
EXTENDS MidiBase

ValidStatus(s) == s >= 128 /\ s <= 255
TypeOf(s)      == IF s >= 240 THEN s ELSE (s \div 16) * 16
TypeBytes      == {128, 144, 160, 176, 192, 208, 224} \cup (240..255)       \* the 23 types
ChannelOfS(s)  == IF s < 240 THEN s % 16 ELSE None

SuperOf(s, d1) == IF s < 240 THEN (IF TypeOf(s) = 176 /\ d1 >= 120 THEN 1 ELSE 0)
                  ELSE IF s = 240 THEN 4
                  ELSE IF s <= 247 THEN 2 ELSE 3
MainOfSuper(sup) == IF sup \in {0, 1} THEN 0 ELSE 1
MainOf(s)      == IF s < 240 THEN 0 ELSE 1
FuzzyOf(t)     == IF t < 240 THEN 0 ELSE IF t = 240 THEN 3 ELSE IF t <= 247 THEN 1 ELSE 2
FuzzyMain(f)   == IF f = 0 THEN 0 ELSE 1

(************************ "carries this field" table ***********************)
KeyOf(s, d1, d2)   == IF TypeOf(s) \in {128, 144, 160} THEN d1 ELSE None
VelOf(s, d1, d2)   == IF TypeOf(s) \in {128, 144} THEN d2 ELSE None
CnOf(s, d1, d2)    == IF TypeOf(s) = 176 THEN d1 ELSE None
CvOf(s, d1, d2)    == IF TypeOf(s) = 176 THEN d2 ELSE None
ProgOf(s, d1, d2)  == IF TypeOf(s) = 192 THEN d1 ELSE None
PressOf(s, d1, d2) == IF TypeOf(s) = 160 THEN d2 ELSE IF TypeOf(s) = 208 THEN d1 ELSE None
PbOf(s, d1, d2)    == IF TypeOf(s) = 224 THEN 128 * d2 + d1 ELSE None
IsNote(s)          == TypeOf(s) \in {128, 144}
IsNoteOn(s, d2)    == TypeOf(s) = 144 /\ d2 > 0
IsNoteOff(s, d2)   == TypeOf(s) = 128 \/ (TypeOf(s) = 144 /\ d2 = 0)

(************************* time code quarter frames ************************)
(* frame = <<kind, a, t>>: kind 0..6 = the seven nibble pieces (a = nibble), *)
(* kind 7 = Last { hours_count_ms_bit = a, time_code_type = t }.             *)
QfFrames == {<<k, a, 0>> : k \in 0..6, a \in 0..15} \cup {<<7, a, t>> : a \in 0..1, t \in 0..3}
QfDecode(b) == IF b \div 16 < 7 THEN <<b \div 16, b % 16, 0>>
               ELSE <<7, b % 2, (b \div 2) % 4>>            \* bit 3 is reserved: dropped
QfEncode(f) == IF f[1] < 7 THEN 16 * f[1] + f[2] ELSE 112 + 2 * f[3] + f[2]

(******************************* structured ********************************)
UnitVariant(s) == CASE s = 240 -> 7  [] s = 244 -> 19 [] s = 245 -> 20 [] s = 246 -> 11
                    [] s = 247 -> 12 [] s = 248 -> 13 [] s = 249 -> 21 [] s = 250 -> 14
                    [] s = 251 -> 15 [] s = 252 -> 16 [] s = 253 -> 22 [] s = 254 -> 17
                    [] s = 255 -> 18
UnitStatus(v)  == CASE v = 7 -> 240  [] v = 19 -> 244 [] v = 20 -> 245 [] v = 11 -> 246
                    [] v = 12 -> 247 [] v = 13 -> 248 [] v = 21 -> 249 [] v = 14 -> 250
                    [] v = 15 -> 251 [] v = 16 -> 252 [] v = 22 -> 253 [] v = 17 -> 254
                    [] v = 18 -> 255

Structured(s, d1, d2) ==
    LET t == TypeOf(s)  c == s % 16 IN
    CASE t = 128 -> <<0, c, d1, d2>>
      [] t = 144 -> <<1, c, d1, d2>>
      [] t = 160 -> <<2, c, d1, d2>>
      [] t = 176 -> <<3, c, d1, d2>>
      [] t = 192 -> <<4, c, d1, 0>>
      [] t = 208 -> <<5, c, d1, 0>>
      [] t = 224 -> <<6, c, 128 * d2 + d1, 0>>
      [] t = 241 -> <<8>> \o QfDecode(d1)
      [] t = 242 -> <<9, 128 * d2 + d1, 0, 0>>
      [] t = 243 -> <<10, d1, 0, 0>>
      [] OTHER   -> <<UnitVariant(s), 0, 0, 0>>

\* all values of the enum StructuredShortMessage (for the directly-constructed table)
StructuredValid(x) ==
    CASE x[1] \in {0, 1, 2, 3} -> x[2] \in 0..15 /\ x[3] \in 0..127 /\ x[4] \in 0..127
      [] x[1] \in {4, 5}       -> x[2] \in 0..15 /\ x[3] \in 0..127 /\ x[4] = 0
      [] x[1] = 6              -> x[2] \in 0..15 /\ x[3] \in 0..16383 /\ x[4] = 0
      [] x[1] = 8              -> <<x[2], x[3], x[4]>> \in QfFrames
      [] x[1] = 9              -> x[2] \in 0..16383 /\ x[3] = 0 /\ x[4] = 0
      [] x[1] = 10             -> x[2] \in 0..127 /\ x[3] = 0 /\ x[4] = 0
      [] OTHER                 -> x[1] \in {7} \cup (11..22) /\ x[2] = 0 /\ x[3] = 0 /\ x[4] = 0

BytesOf(x) ==
    CASE x[1] \in {0, 1, 2, 3} -> <<128 + 16 * x[1] + x[2], x[3], x[4]>>
      [] x[1] = 4 -> <<192 + x[2], x[3], 0>>
      [] x[1] = 5 -> <<208 + x[2], x[3], 0>>
      [] x[1] = 6 -> <<224 + x[2], Lo(x[3]), Hi(x[3])>>
      [] x[1] = 8 -> <<241, QfEncode(<<x[2], x[3], x[4]>>), 0>>
      [] x[1] = 9 -> <<242, Lo(x[2]), Hi(x[2])>>
      [] x[1] = 10 -> <<243, x[2], 0>>
      [] OTHER -> <<UnitStatus(x[1]), 0, 0>>

\* constructive definition of "canonical": decode, then re-encode
Canon(s, d1, d2) == BytesOf(Structured(s, d1, d2))

\* declarative definition: information-free parts set to zero
UsesD1(t) == t \in {128, 144, 160, 176, 192, 208, 224, 241, 242, 243}
UsesD2(t) == t \in {128, 144, 160, 176, 224, 242}
Mask(s, d1, d2) ==
    LET t == TypeOf(s)
        m1 == IF ~UsesD1(t) THEN 0
              ELSE IF t = 241 /\ d1 >= 112 /\ (d1 \div 8) % 2 = 1 THEN d1 - 8   \* reserved bit of 'last'
              ELSE d1
    IN <<s, m1, IF UsesD2(t) THEN d2 ELSE 0>>

(********************** the row oracle: every trait method ******************)
(* 1 type 2 super 3 main 4 channel 5 key 6 velocity 7 controller 8 value     *)
(* 9 program 10 pressure 11 pitch bend 12 is_note 13 is_note_on              *)
(* 14 is_note_off 15-17 byte getters 18-20 to_bytes 21 type.super_type()     *)
(* 22 type.super_type().main_category() 23-26 to_structured()                *)
Obs(s, d1, d2) ==
    << TypeOf(s), SuperOf(s, d1), MainOfSuper(SuperOf(s, d1)), ChannelOfS(s),
       KeyOf(s, d1, d2), VelOf(s, d1, d2), CnOf(s, d1, d2), CvOf(s, d1, d2),
       ProgOf(s, d1, d2), PressOf(s, d1, d2), PbOf(s, d1, d2),
       B2I(IsNote(s)), B2I(IsNoteOn(s, d2)), B2I(IsNoteOff(s, d2)),
       s, d1, d2, s, d1, d2,
       FuzzyOf(TypeOf(s)), FuzzyMain(FuzzyOf(TypeOf(s))) >> \o Structured(s, d1, d2)
ObsLen == 26

(************* spec-level theorems (checked by TLC on the full domain) *******)
ThmTriple(s, d1, d2) ==
    LET c == Canon(s, d1, d2) IN
    /\ c = Mask(s, d1, d2)                                   \* both definitions agree
    /\ Canon(c[1], c[2], c[3]) = c                           \* idempotent
    /\ Structured(c[1], c[2], c[3]) = Structured(s, d1, d2)  \* nothing meaningful lost
    /\ StructuredValid(Structured(s, d1, d2))
    /\ \A j \in (1..14) \cup {21, 22, 23, 24, 25, 26} :     \* every accessor but the byte getters
          Obs(c[1], c[2], c[3])[j] = Obs(s, d1, d2)[j]
    /\ MainOf(s) = MainOfSuper(SuperOf(s, d1))
    /\ FuzzyMain(FuzzyOf(TypeOf(s))) = MainOf(s)
    /\ (ChannelOfS(s) # None) <=> (MainOf(s) = 0)
    /\ TypeOf(s) \in TypeBytes
ThmQf == /\ \A f \in QfFrames : QfDecode(QfEncode(f)) = f
         /\ \A b \in 0..127 : QfEncode(QfDecode(b)) = Mask(241, b, 0)[2]
         /\ \A b \in 0..127 : QfDecode(b) \in QfFrames
ThmJoin == \A v \in 0..16383 : Join(Hi(v), Lo(v)) = v /\ Hi(v) \in 0..127 /\ Lo(v) \in 0..127
ThmStructuredValue(x) == StructuredValid(x) =>
    LET b == BytesOf(x) IN Structured(b[1], b[2], b[3]) = x /\ ValidStatus(b[1])
===============================================================================
