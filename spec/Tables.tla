-------------------------------- MODULE Tables --------------------------------
(***************************************************************************)
(* Table validation for the pure layers (impl -> spec).  The harness wrote *)
(* chunk files of rows (arrays of small integers: inputs, then what the    *)
(* real code returned; -1 = None, -2 = panicked).  TLC evaluates the       *)
(* specification operators on every row and prints every disagreement as  *)
(*     <<"ROWBAD", property, clause, chunk, row index>>.                    *)
(* One initial state per chunk, so that the workers judge in parallel.      *)
(***************************************************************************)
EXTENDS ShortMsg, TLC, Json, IOUtils, Sequences, FiniteSets

CONSTANTS K,      \* number of chunk files
          Table   \* which table

Dir == IOEnv.TABLEDIR

VARIABLES k, phase
vars == <<k, phase>>

Sub(r, a, n) == SubSeq(r, a, a + n - 1)
FirstDiff(a, b) == CHOOSE j \in 1..Len(a) : a[j] # b[j] /\ \A i \in 1..(j - 1) : a[i] = b[i]
HasPanic(r) == \E j \in 1..Len(r) : r[j] = -2

(******************************* table `short` *****************************)
ShortViol(r) ==
    LET s == r[1]  d1 == r[2]  d2 == r[3]
        valid == ValidStatus(s)
        oks == (IF r[4] = B2I(valid) /\ r[5] = B2I(valid) /\ r[6] = B2I(valid) /\ r[7] = B2I(valid)
                THEN {} ELSE {<<"C01", "from_bytes-accepts-iff-status-valid">>})
    IN IF ~valid \/ Len(r) <= 9
       THEN oks \cup (IF Len(r) = 8 /\ r[8] = 0 THEN {} ELSE
                      {<<"C18", IF Len(r) = 9 THEN "panic-constructing-structured" ELSE "alloc">>})
                \cup (IF valid /\ Len(r) <= 9 /\ oks = {} THEN {<<"C01", "structured-not-constructible">>} ELSE {})
       ELSE
       LET vecR == Sub(r, 9, 26)   vecS == Sub(r, 35, 26)   flags == Sub(r, 61, 12)
           back == Sub(r, 73, 3)   rt2 == Sub(r, 76, 3)     into == Sub(r, 79, 3)
           c == Canon(s, d1, d2)
           expR == Obs(s, d1, d2)
           expS == Obs(c[1], c[2], c[3])
           bytesIdx == 15..20
           accName(j) == "acc" \o ToString(j)
       IN oks
          \cup (IF vecR = expR THEN {}
                ELSE LET j == FirstDiff(vecR, expR) IN
                     {<<IF j \in bytesIdx THEN "C01" ELSE "C02", "raw-" \o accName(j)>>})
          \cup (IF vecS = expS THEN {}
                ELSE LET j == FirstDiff(vecS, expS) IN
                     {<<IF j \in bytesIdx THEN "C01" ELSE "C02", "structured-" \o accName(j)>>})
          \cup (IF back = c THEN {} ELSE {<<"C01", "structured-to-raw-bytes-not-canonical">>})
          \cup (IF rt2 = c THEN {} ELSE {<<"C01", "round-trip-not-idempotent">>})
          \cup (IF into = <<s, d1, d2>> THEN {} ELSE {<<"C01", "raw-into-tuple">>})
          \cup {<<"C03", "flag" \o ToString(j)>> : j \in {x \in 1..12 : flags[x] # 1}}
          \* C03, stated directly: structured answers = raw answers except the byte getters
          \cup (IF \A j \in (1..14) \cup (21..26) : vecS[j] = vecR[j] THEN {}
                ELSE {<<"C03", "structured-vs-raw-" \o accName(CHOOSE j \in (1..14) \cup (21..26) : vecS[j] # vecR[j])>>})
          \cup (IF r[8] = 0 THEN {} ELSE {<<"C18", "alloc">>})
          \cup (IF HasPanic(r) THEN {<<"C18", "panic">>} ELSE {})
          \cup (IF \A j \in {4, 5, 6, 7, 8, 9, 10} : vecR[j] <= 127 /\ vecS[j] <= 127 THEN {} ELSE {<<"C04", "range">>})
          \cup (IF vecR[11] <= 16383 /\ vecS[11] <= 16383 /\ vecR[16] <= 127 /\ vecR[17] <= 127
                   /\ vecS[16] <= 127 /\ vecS[17] <= 127 THEN {} ELSE {<<"C04", "range">>})

(***************************** table `structured` **************************)
(* a StructuredShortMessage value built directly from its fields            *)
StructViol(r) ==
    LET x == Sub(r, 1, 4)
        vec == Sub(r, 6, 26)  rawb == Sub(r, 32, 3)  flags == Sub(r, 35, 5)
        b == BytesOf(x)
        exp == Obs(b[1], b[2], b[3])
    IN (IF StructuredValid(x) THEN {} ELSE {<<"TOOL", "bad-structured-row">>})
       \cup (IF vec = exp THEN {}
             ELSE LET j == FirstDiff(vec, exp) IN
                  {<<IF j \in 15..20 THEN "C01" ELSE "C02", "direct-structured-acc" \o ToString(j)>>})
       \cup (IF Sub(vec, 23, 4) = x THEN {} ELSE {<<"C01", "direct-structured-to_structured">>})
       \cup (IF rawb = b THEN {} ELSE {<<"C01", "direct-structured-to-raw-bytes">>})
       \cup {<<"C01", "direct-structured-flag" \o ToString(j)>> : j \in {y \in 1..5 : flags[y] # 1}}
       \cup (IF r[5] = 0 THEN {} ELSE {<<"C18", "alloc">>})
       \cup (IF HasPanic(r) THEN {<<"C18", "panic">>} ELSE {})

(******************************* table `types` *****************************)
ControllerTable ==
    <<0, 1, 2, 4, 5, 6, 7, 8, 10, 11, 12, 13, 16, 17, 18, 19,
      32, 33, 34, 36, 37, 38, 39, 40, 42, 43, 44, 45, 48, 49, 50, 51,
      96, 97, 98, 99, 100, 101,
      120, 121, 122, 123, 124, 125, 126, 127>>

TypesViol(r) ==
    CASE r[1] = 0 ->
           LET b == r[2]  valid == b \in TypeBytes IN
           (IF r[3] = B2I(valid) THEN {} ELSE {<<"C02", "type-try_from-u8">>})
           \cup (IF valid /\ r[3] = 1 /\ r[4] # b THEN {<<"C01", "type-byte-roundtrip">>} ELSE {})
           \cup (IF valid /\ r[3] = 1 /\ (r[5] # FuzzyOf(b) \/ r[6] # FuzzyMain(FuzzyOf(b)))
                 THEN {<<"C02", "type-super-type">>} ELSE {})
           \cup (IF r[7] = 0 /\ ~HasPanic(r) THEN {} ELSE {<<"C18", "types">>})
      [] r[1] = 1 ->
           (IF <<r[3], r[4], r[5]>> = QfDecode(r[2]) THEN {} ELSE {<<"C01", "quarter-frame-decode">>})
           \cup (IF r[6] = QfEncode(QfDecode(r[2])) THEN {} ELSE {<<"C01", "quarter-frame-reencode">>})
           \cup (IF r[7] = 0 /\ ~HasPanic(r) THEN {} ELSE {<<"C18", "types">>})
      [] r[1] = 2 ->
           (IF r[5] = QfEncode(<<r[2], r[3], r[4]>>) THEN {} ELSE {<<"C01", "quarter-frame-encode">>})
           \cup (IF <<r[6], r[7], r[8]>> = <<r[2], r[3], r[4]>> THEN {} ELSE {<<"C01", "quarter-frame-roundtrip">>})
           \cup (IF r[9] = 0 /\ ~HasPanic(r) THEN {} ELSE {<<"C18", "types">>})
      [] r[1] = 3 ->
           LET n == r[2] IN
           (IF r[3] = B2I(n <= 63) THEN {} ELSE {<<"C16", "can_be_part_of_14_bit">>})
           \cup (IF r[4] = (IF n <= 31 THEN n + 32 ELSE None) THEN {} ELSE {<<"C16", "corresponding_lsb">>})
           \cup (IF r[5] = B2I(n \in PnControllers) THEN {} ELSE {<<"C16", "is_parameter_number_controller">>})
           \cup (IF r[6] = B2I(n >= 120) THEN {} ELSE {<<"C02", "is_channel_mode_controller">>})
           \cup (IF r[7] = 0 /\ ~HasPanic(r) THEN {} ELSE {<<"C18", "types">>})
      [] r[1] = 4 ->
           LET i == r[2] + 1 IN
           (IF r[3] = ControllerTable[i] THEN {}
            ELSE {<<IF i >= 39 THEN "C02" ELSE "C16", "controller-constant-" \o ToString(r[2])>>})
           \cup (IF i \in 17..32 /\ r[3] # ControllerTable[i - 16] + 32 THEN {<<"C16", "lsb-constant">>} ELSE {})

RowViol(r) == CASE Table = "short" -> ShortViol(r)
                [] Table = "structured" -> StructViol(r)
                [] Table = "types" -> TypesViol(r)

JudgeChunk(c) ==
    LET rows == ndJsonDeserialize(Dir \o "/chunk_" \o ToString(c) \o ".ndjson") IN
    /\ \A i \in 1..Len(rows) : \A f \in RowViol(rows[i]) : PrintT(<<"ROWBAD", f[1], f[2], c, i>>)
    /\ PrintT(<<"CHUNK", c, Len(rows)>>)

Init == k \in 1..K /\ phase = 0
Next == /\ phase = 0 /\ phase' = 1 /\ k' = k
        /\ JudgeChunk(k)
Spec == Init /\ [][Next]_vars
===============================================================================
