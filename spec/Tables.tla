-------------------------------- MODULE Tables --------------------------------
(***************************************************************************)
(* Table validation for the pure layers (impl -> spec).  The harness wrote *)
(* chunk files of rows (arrays of small integers: inputs, then what the    *)
(* real code returned; -1 = None, -2 = panicked).  TLC evaluates the       *)
(* specification operators on every row and prints every disagreement as  *)
(*     <<"ROWBAD", property, clause, chunk, row index>>.                    *)
(* One initial state per chunk, so that the workers judge in parallel.      *)
(***************************************************************************)
EXTENDS ShortMsg, MidiInts, PnScanner, Cc14Scanner, TLC, Json, IOUtils, FiniteSets

CONSTANTS K,      \* number of chunk files
          Table   \* which table

Dir == IOEnv.TABLEDIR

VARIABLES k, phase
vars == <<k, phase>>

Sub(r, a, n) == SubSeq(r, a, a + n - 1)
FirstDiff(a, b) == CHOOSE j \in 1..Len(a) : a[j] # b[j] /\ \A i \in 1..(j - 1) : a[i] = b[i]
HasPanic(r) == \E j \in 1..Len(r) : r[j] = -2

(******************************* table `short` *****************************)
ShortViol(r) ==
    LET s == r[1]  d1 == r[2]  d2 == r[3]
        valid == ValidStatus(s)
        \* r[4..8]: from_bytes of RawShortMessage, StructuredShortMessage, the byte-keeping third-party
        \* factory, TryFrom<(u8, U7, U7)> for RawShortMessage, the structure-keeping third-party factory
        oks == (IF \A j \in 4..8 : r[j] = B2I(valid)
                THEN {} ELSE {<<"C01", "from_bytes-accepts-iff-status-valid">>})
        panicked == valid /\ (\E j \in 4..8 : r[j] = -2)
    IN IF panicked
       THEN {<<"C01", "from_bytes-panics">>, <<"C18", "panic">>}
            \* only when the structured form itself cannot be built do the accessors (C02) and the
            \* representation independence (C03) fail with it
            \cup (IF r[5] = -2 THEN {<<"C02", "structured-not-constructible">>, <<"C03", "structured-not-constructible">>}
                  ELSE {})
       ELSE IF ~valid \/ Len(r) <= 10
       THEN oks \cup (IF Len(r) = 9 /\ r[9] = 0 THEN {} ELSE
                      {<<"C18", IF Len(r) = 10 THEN "panic-constructing-structured" ELSE "alloc">>})
                \* converting a valid message to StructuredShortMessage panicked: the byte round trip (C01), the
                \* accessors built on to_structured (C02) and representation independence (C03) all fail
                \cup (IF valid /\ Len(r) <= 10 /\ oks = {}
                      THEN {<<"C01", "structured-not-constructible">>, <<"C02", "structured-not-constructible">>,
                            <<"C03", "structured-not-constructible">>} ELSE {})
       ELSE
       LET vecR == Sub(r, 10, 26)   vecS == Sub(r, 36, 26)   flags == Sub(r, 62, 16)
           back == Sub(r, 78, 3)   rt2 == Sub(r, 81, 3)     into == Sub(r, 84, 3)
           tryf == Sub(r, 87, 3)   flags2 == Sub(r, 90, 8)
           c == Canon(s, d1, d2)
           expR == Obs(s, d1, d2)
           expS == Obs(c[1], c[2], c[3])
           bytesIdx == 15..20
           accName(j) == "acc" \o ToString(j)
           \* flags2: 1 = `&&M` receivers, 2 / 3 = method syntax on the concrete raw / structured type,
           \* 4 = re-entrant third-party adapter, 5 = structure-keeping third-party implementor,
           \* 6 = its factory and conversions, 7 = the same answers after unrelated calls,
           \* 8 = tuple conversion and Clone agree with from_bytes
           F2Props(j) == CASE j \in {1, 7} -> {"C02", "C03"}
                           [] j \in {2, 3} -> {"C02"}      \* inherent methods: what callers of the concrete type get
                           [] j \in {4, 5} -> {"C03"}
                           [] j = 6 -> {"C01", "C03"}
                           [] OTHER -> {"C01"}
       IN oks
          \cup (IF vecR = expR THEN {}
                ELSE LET j == FirstDiff(vecR, expR) IN
                     {<<IF j \in bytesIdx THEN "C01" ELSE "C02", "raw-" \o accName(j)>>})
          \cup (IF vecS = expS THEN {}
                ELSE LET j == FirstDiff(vecS, expS) IN
                     {<<IF j \in bytesIdx THEN "C01" ELSE "C02", "structured-" \o accName(j)>>})
          \cup (IF back = c THEN {} ELSE {<<"C01", "structured-to-raw-bytes-not-canonical">>})
          \cup (IF rt2 = c THEN {} ELSE {<<"C01", "round-trip-not-idempotent">>})
          \cup (IF into = <<s, d1, d2>> THEN {} ELSE {<<"C01", "raw-into-tuple">>})
          \cup (IF tryf = <<s, d1, d2>> THEN {} ELSE {<<"C01", "raw-try_from-tuple">>})
          \cup {<<"C03", "flag" \o ToString(j)>> : j \in {x \in 1..16 : flags[x] # 1}}
          \cup UNION {{<<p, "way" \o ToString(j)>> : p \in F2Props(j)} : j \in {x \in 1..8 : flags2[x] # 1}}
          \* C03: the ONLY permitted difference in the byte getters is information-free parts set to zero
          \cup (IF Sub(vecS, 15, 3) = Mask(s, d1, d2) /\ Sub(vecS, 18, 3) = Mask(s, d1, d2) THEN {}
                ELSE {<<"C03", "structured-bytes-not-masked-raw-bytes">>})
          \* C03, stated directly: structured answers = raw answers except the byte getters
          \cup (IF \A j \in (1..14) \cup (21..26) : vecS[j] = vecR[j] THEN {}
                ELSE {<<"C03", "structured-vs-raw-" \o accName(CHOOSE j \in (1..14) \cup (21..26) : vecS[j] # vecR[j])>>})
          \cup (IF r[9] = 0 THEN {} ELSE {<<"C18", "alloc">>})
          \cup (IF HasPanic(r) THEN {<<"C18", "panic">>} ELSE {})
          \cup (IF \A j \in {5, 6, 7, 8, 9, 10} : vecR[j] <= 127 /\ vecS[j] <= 127 THEN {} ELSE {<<"C04", "range">>})
          \cup (IF vecR[4] <= 15 /\ vecS[4] <= 15 THEN {} ELSE {<<"C04", "channel-range">>})
          \cup (IF (HasPanic(Sub(vecR, 23, 4)) \/ StructuredValid(Sub(vecR, 23, 4)))
                   /\ (HasPanic(Sub(vecS, 23, 4)) \/ StructuredValid(Sub(vecS, 23, 4)))
                THEN {} ELSE {<<"C04", "structured-field-range">>})
          \cup (IF vecR[11] <= 16383 /\ vecS[11] <= 16383 /\ vecR[16] <= 127 /\ vecR[17] <= 127
                   /\ vecS[16] <= 127 /\ vecS[17] <= 127 THEN {} ELSE {<<"C04", "range">>})

(***************************** table `structured` **************************)
(* a StructuredShortMessage value built directly from its fields            *)
StructViol(r) ==
    IF Len(r) = 5 THEN {<<"C18", "panic">>, <<"C01", "direct-structured-construction-panics">>} ELSE
    LET x == Sub(r, 1, 4)
        vec == Sub(r, 6, 26)  rawb == Sub(r, 32, 3)  flags == Sub(r, 35, 5)
        b == BytesOf(x)
        exp == Obs(b[1], b[2], b[3])
    IN (IF StructuredValid(x) THEN {} ELSE {<<"TOOL", "bad-structured-row">>})
       \cup (IF vec = exp THEN {}
             ELSE LET j == FirstDiff(vec, exp) IN
                  {<<IF j \in 15..20 THEN "C01" ELSE "C02", "direct-structured-acc" \o ToString(j)>>})
       \cup (IF Sub(vec, 23, 4) = x THEN {} ELSE {<<"C01", "direct-structured-to_structured">>})
       \cup (IF rawb = b THEN {} ELSE {<<"C01", "direct-structured-to-raw-bytes">>})
       \cup {<<"C01", "direct-structured-flag" \o ToString(j)>> : j \in {y \in 1..5 : flags[y] # 1}}
       \cup (IF r[5] = 0 THEN {} ELSE {<<"C18", "alloc">>})
       \cup (IF HasPanic(r) THEN {<<"C18", "panic">>} ELSE {})

(******************************* table `types` *****************************)
ControllerTable ==
    <<0, 1, 2, 4, 5, 6, 7, 8, 10, 11, 12, 13, 16, 17, 18, 19,
      32, 33, 34, 36, 37, 38, 39, 40, 42, 43, 44, 45, 48, 49, 50, 51,
      96, 97, 98, 99, 100, 101,
      120, 121, 122, 123, 124, 125, 126, 127,
      \* damper .. hold 2, sound controllers 1-10, general purpose 5-8, portamento control,
      \* high resolution velocity prefix, effects 1-5 depth
      64, 65, 66, 67, 68, 69, 70, 71, 72, 73, 74, 75, 76, 77, 78, 79, 80, 81, 82, 83, 84, 88, 91, 92, 93, 94, 95>>

TypesViol(r) ==
    CASE r[1] = 0 ->
           LET b == r[2]  valid == b \in TypeBytes IN
           (IF r[3] = B2I(valid) THEN {} ELSE {<<"C02", "type-try_from-u8">>})
           \cup (IF valid /\ r[3] = 1 /\ r[4] # b THEN {<<"C01", "type-byte-roundtrip">>} ELSE {})
           \cup (IF valid /\ r[3] = 1 /\ (r[5] # FuzzyOf(b) \/ r[6] # FuzzyMain(FuzzyOf(b)))
                 THEN {<<"C02", "type-super-type">>} ELSE {})
           \cup (IF r[7] = 0 /\ ~HasPanic(r) THEN {} ELSE {<<"C18", "types">>})
      [] r[1] = 1 ->
           (IF <<r[3], r[4], r[5]>> = QfDecode(r[2]) THEN {} ELSE {<<"C01", "quarter-frame-decode">>})
           \cup (IF r[6] = QfEncode(QfDecode(r[2])) THEN {} ELSE {<<"C01", "quarter-frame-reencode">>})
           \cup (IF r[7] = 0 /\ ~HasPanic(r) THEN {} ELSE {<<"C18", "types">>})
      [] r[1] = 2 ->
           (IF r[5] = QfEncode(<<r[2], r[3], r[4]>>) THEN {} ELSE {<<"C01", "quarter-frame-encode">>})
           \cup (IF <<r[6], r[7], r[8]>> = <<r[2], r[3], r[4]>> THEN {} ELSE {<<"C01", "quarter-frame-roundtrip">>})
           \cup (IF r[9] = 0 /\ ~HasPanic(r) THEN {} ELSE {<<"C18", "types">>})
      [] r[1] = 3 ->
           LET n == r[2] IN
           (IF r[3] = B2I(n <= 63) THEN {} ELSE {<<"C16", "can_be_part_of_14_bit">>})
           \cup (IF r[4] = (IF n <= 31 THEN n + 32 ELSE None) THEN {} ELSE {<<"C16", "corresponding_lsb">>})
           \cup (IF r[4] = None \/ r[4] \in 0..127 THEN {} ELSE {<<"C04", "controller-number-out-of-range">>})
           \cup (IF r[5] = B2I(n \in PnControllers) THEN {} ELSE {<<"C16", "is_parameter_number_controller">>})
           \cup (IF r[6] = B2I(n >= 120) THEN {} ELSE {<<"C02", "is_channel_mode_controller">>})
           \cup (IF r[7] = 0 /\ ~HasPanic(r) THEN {} ELSE {<<"C18", "types">>})
      [] r[1] = 4 ->
           LET i == r[2] + 1 IN
           (IF r[3] = ControllerTable[i] THEN {}
            ELSE {<<IF i >= 47 THEN "GROWTH" ELSE IF i >= 39 THEN "C02" ELSE "C16", "controller-constant-" \o ToString(r[2])>>})
           \cup (IF r[3] \in 0..127 THEN {} ELSE {<<"C04", "constant-out-of-range">>})
           \cup (IF i \in 17..32 /\ r[3] # ControllerTable[i - 16] + 32 THEN {<<"C16", "lsb-constant">>} ELSE {})

(******************************** table `ints` *****************************)
(* r[1] kind, r[2] build configuration (0 = std, 1 = without std), r[3] T    *)
Both(clause) == {<<"C04", clause>>, <<"C05", clause>>}
\* every string of 1 to 3 characters over '+' and the ASCII digits (a superset of the numerals that short)
NumeralCands == UNION {[1..n -> {43} \cup (48..57)] : n \in 1..3}
IntsViol(r) ==
    LET T == r[3] IN
    CASE r[1] \in {0, 2} ->          \* TryFrom: [kind,cfg,T,S,cls,v,ok,res,al]
           LET want == TryOk(T, r[5], r[6]) IN
           (IF r[7] = B2I(want) THEN {} ELSE Both("try_from-accepts-iff-in-range"))
           \cup (IF r[7] = 1 /\ ~InRange(T, r[8]) THEN {<<"C04", "out-of-range-value">>} ELSE {})
           \cup (IF r[7] = 1 /\ want /\ r[8] # r[6] THEN {<<"C05", "try_from-value">>} ELSE {})
           \cup (IF r[9] = 0 /\ r[7] # -2 THEN {} ELSE {<<"C18", "ints">>})
      [] r[1] \in {1, 3} ->          \* From: [kind,cfg,T,S,cls,v,res,al]
           (IF InRange(T, r[7]) THEN {} ELSE {<<"C04", "out-of-range-value">>})
           \cup (IF r[5] = 0 /\ r[7] = r[6] THEN {} ELSE {<<"C05", "from-value">>})
           \cup (IF r[8] = 0 /\ r[7] # -2 THEN {} ELSE {<<"C18", "ints">>})
      [] r[1] = 4 ->                 \* into primitive: [4,cfg,T,P,v,cls,res,al]
           (IF r[6] = 0 /\ r[7] = r[5] THEN {} ELSE {<<"C05", "into-primitive-value">>})
           \cup (IF r[8] = 0 /\ r[7] # -2 THEN {} ELSE {<<"C18", "ints">>})
      [] r[1] = 5 ->                 \* new: [5,cfg,T,v,pan,res,al]
           (IF r[5] = B2I(~InRange(T, r[4])) THEN {}
            ELSE {<<"C04", IF r[2] = 0 THEN "new-panics-iff-out-of-range" ELSE "new-panics-iff-out-of-range-without-std">>}
                 \cup (IF InRange(T, r[4]) THEN {<<"C18", "new-panics-on-valid-input">>} ELSE {}))
           \cup (IF r[5] = 0 /\ ~InRange(T, r[6]) THEN {<<"C04", "out-of-range-value">>} ELSE {})
           \cup (IF r[5] = 0 /\ InRange(T, r[4]) /\ r[6] # r[4] THEN {<<"C05", "new-value">>} ELSE {})
           \cup (IF r[5] = 1 \/ r[7] = 0 THEN {} ELSE {<<"C18", "ints">>})
      [] r[1] = 6 ->                 \* parse: [6,cfg,T,ok,res,al,n,c1..cn]
           LET cs == SubSeq(r, 8, 7 + r[7])  want == ParseOk(T, cs) IN
           \* C04: parsing fails exactly for out-of-range input (an in-range numeral rejected, an out-of-range one
           \* accepted); C05: exactly the unsigned decimal numerals are accepted (anything else accepted: C05 only)
           (IF r[4] = B2I(want) THEN {}
            ELSE IF IsNumeral(cs) THEN Both("parse-accepts-iff-numeral-in-range")
            ELSE {<<"C05", "parse-accepts-iff-numeral-in-range">>})
           \cup (IF r[4] = 1 /\ ~InRange(T, r[5]) THEN {<<"C04", "out-of-range-value">>} ELSE {})
           \cup (IF r[4] = 1 /\ want /\ r[5] # NumeralValue(cs) THEN {<<"C05", "parse-value">>} ELSE {})
           \cup (IF r[6] = 0 /\ r[4] # -2 THEN {} ELSE {<<"C18", "ints">>})
      [] r[1] = 7 ->                 \* display: [7,cfg,T,v,backok,backval,al,n,c1..cn]
           (IF SubSeq(r, 9, 8 + r[8]) = DigitsOf(r[4]) THEN {} ELSE {<<"C05", "display">>})
           \cup (IF r[5] = 1 /\ r[6] = r[4] THEN {} ELSE {<<"C05", "display-then-parse">>})
           \cup (IF r[7] = 0 THEN {} ELSE {<<"C18", "ints">>})
      [] r[1] = 8 ->                 \* ord: [8,cfg,T,a,b,lt,le,eq,ne,cmp,pcmp,max,min]
           LET a == r[4]  b == r[5]  c == IF a < b THEN 0 ELSE IF a = b THEN 1 ELSE 2 IN
           (IF /\ r[6] = B2I(a < b) /\ r[7] = B2I(a <= b) /\ r[8] = B2I(a = b) /\ r[9] = B2I(a # b)
               /\ r[10] = c /\ r[11] = c
               /\ r[12] = (IF a >= b THEN a ELSE b) /\ r[13] = (IF a <= b THEN a ELSE b)
            THEN {} ELSE {<<"C05", "ordering">>})
           \cup (IF r[14] = 0 /\ ~HasPanic(r) THEN {} ELSE {<<"C18", "ints">>})
      [] r[1] = 9 ->                 \* consts: [9,cfg,T,MIN,MAX,default]
           (IF r[4] = 0 /\ r[5] = MaxOf(T) /\ r[6] = 0 THEN {} ELSE Both("min-max-default"))
      [] r[1] = 10 ->                \* new_unchecked within its contract: [10,cfg,T,v,res,al]
           \* (`new_unchecked` is unsafe API: outside C04's "safe public API"; value fidelity is growth)
           (IF r[5] = r[4] THEN {} ELSE {<<"GROWTH", "new_unchecked-value">>})
           \cup (IF r[6] = 0 /\ r[5] # -2 THEN {} ELSE {<<"C18", "ints">>})
      [] r[1] = 12 ->                \* census of a small string space: [12,cfg,T,space,accepted,total]
           \* every accepted string of the space is judged by its own parse row; here only the COUNT: together
           \* they say that exactly the in-range numerals of the space are accepted (C04: parsing fails exactly
           \* for out-of-range input; C05: exactly the unsigned decimal numerals in range parse)
           LET expected == IF r[4] \in {0, 1} THEN MaxOf(T) + 1
                           ELSE Cardinality({cs \in NumeralCands : ParseOk(T, cs)}) IN
           (IF r[5] = expected THEN {} ELSE Both("parse-census"))
      [] r[1] = 11 ->                \* formatting with flags / width / Debug: [11,cfg,T,v,spec,al,n,c1..cn]
           \* C18: "formatting of the integer types" neither allocates nor panics, whatever the format spec
           (IF r[6] = 0 THEN {} ELSE {<<"C18", "ints-format">>})

(****************************** table `factory` ****************************)
(* r = [ctor, impl, a1, a2, a3, a4, pan, al, result...]; shorthand ctor = 30 + named ctor *)
(* impl: 0 / 1 = RawShortMessage / StructuredShortMessage with the constructor spelled on the concrete type *)
(* (`RawShortMessage::note_on(..)`), 2 / 3 = the same through a generic `F: ShortMessageFactory`            *)
NamedBytes(c, a) ==
    CASE c = 0 -> <<144 + a[1], a[2], a[3]>>
      [] c = 1 -> <<128 + a[1], a[2], a[3]>>
      [] c = 2 -> <<176 + a[1], a[2], a[3]>>
      [] c = 3 -> <<192 + a[1], a[2], 0>>
      [] c = 4 -> <<160 + a[1], a[2], a[3]>>
      [] c = 5 -> <<208 + a[1], a[2], 0>>
      [] c = 6 -> <<224 + a[1], Lo(a[2]), Hi(a[2])>>
      [] c = 7 -> <<240, 0, 0>>
      [] c = 8 -> <<241, QfEncode(<<a[1], a[2], a[3]>>), 0>>
      [] c = 9 -> <<242, Lo(a[1]), Hi(a[1])>>
      [] c = 10 -> <<243, a[1], 0>>
      [] c = 11 -> <<246, 0, 0>> [] c = 12 -> <<247, 0, 0>> [] c = 13 -> <<248, 0, 0>>
      [] c = 14 -> <<250, 0, 0>> [] c = 15 -> <<251, 0, 0>> [] c = 16 -> <<252, 0, 0>>
      [] c = 17 -> <<254, 0, 0>> [] c = 18 -> <<255, 0, 0>>
ArgMax(c) ==       \* documented ranges of the primitive arguments of the shorthand helpers
    CASE c \in {0, 1, 2, 4} -> <<15, 127, 127>>
      [] c \in {3, 5} -> <<15, 127>>
      [] c = 6 -> <<15, 16383>>
      [] c = 9 -> <<16383>>
      [] c = 10 -> <<127>>
      [] OTHER -> <<>>
ShorthandPanics(c, a) == \E i \in 1..Len(ArgMax(c)) : a[i] > ArgMax(c)[i]

FactoryViol(r) ==
    LET c == r[1]  imp == r[2]  a == Sub(r, 3, 4)  pan == r[7]
        isMsg == c <= 22 \/ (c >= 30 /\ c <= 49)
        wantPan == CASE c <= 18 -> FALSE
                     [] c = 20 -> FuzzyOf(a[1]) # 0
                     [] c = 21 -> FuzzyOf(a[1]) # 1
                     [] c = 22 -> FuzzyOf(a[1]) # 2
                     [] c >= 30 /\ c <= 48 -> ShorthandPanics(c - 30, a)
                     [] c = 49 -> a[1] < 128 \/ a[2] > 127 \/ a[3] > 127
                     [] c \in {50, 53} -> a[1] > 15
                     [] c \in {51, 54, 55} -> a[1] > 127
                     [] c = 52 -> a[1] > 16383
                     [] c = 56 -> a[1] > 15 \/ a[2] > 31 \/ a[3] > 16383
                     [] c \in {57, 59} -> a[1] > 15 \/ a[2] > 16383 \/ a[3] > 127
                     [] c \in {58, 60} -> a[1] > 15 \/ a[2] > 16383 \/ a[3] > 16383
        bytes == CASE c <= 18 -> NamedBytes(c, a)
                   [] c = 20 -> <<a[1] + a[2], a[3], a[4]>>
                   [] c = 21 -> <<a[1], a[2], a[3]>>
                   [] c = 22 -> <<a[1], 0, 0>>
                   [] c >= 30 /\ c <= 48 -> NamedBytes(c - 30, a)
                   [] c = 49 -> <<a[1], a[2], a[3]>>
                   [] OTHER -> <<0, 0, 0>>
        eb == IF imp \in {1, 3} THEN Canon(bytes[1], bytes[2], bytes[3]) ELSE bytes
    IN (IF pan = B2I(wantPan) THEN {}
        ELSE {<<"C06", IF wantPan THEN "missing-documented-panic" ELSE "unexpected-panic">>}
             \cup (IF ~wantPan THEN {<<"C18", "panic-on-valid-input">>} ELSE {}))
       \cup (IF pan = 0 /\ ~wantPan /\ isMsg
             THEN LET vec == Sub(r, 9, 26)  exp == Obs(eb[1], eb[2], eb[3]) IN
                  (IF vec = exp THEN {} ELSE {<<"C06", "ctor" \o ToString(c) \o "-acc" \o ToString(FirstDiff(vec, exp))>>})
                  \cup (IF r[35] = 0 /\ ~HasPanic(vec) THEN {} ELSE {<<"C18", "factory-accessors">>})
                  \* `vec` was taken with method syntax on the concrete type (what the caller of a constructor
                  \* writes); r[36] = 1 iff the same calls through the trait gave the same vector
                  \cup (IF Len(r) < 36 \/ r[36] = 1 THEN {} ELSE {<<"C06", "method-syntax-vs-trait">>, <<"C02", "method-syntax-vs-trait">>})
                  \cup (IF vec[16] <= 127 /\ vec[17] <= 127 THEN {} ELSE {<<"C04", "data-byte-out-of-range">>})
             ELSE {})
       \* C04: whatever the panic column says, a constructed value is never out of range
       \cup (IF pan = 0 /\ isMsg /\ Len(r) >= 34
                /\ ~(r[9 + 15] \in (-2)..127 /\ r[9 + 16] \in (-2)..127 /\ r[9 + 3] \in (-2)..15)
             THEN {<<"C04", "data-byte-out-of-range">>} ELSE {})
       \cup (IF pan = 0 /\ c >= 50 /\ c <= 55 /\ Len(r) >= 9
                /\ r[9] > (CASE c \in {50, 53} -> 15 [] c = 52 -> 16383 [] OTHER -> 127)
             THEN {<<"C04", "shorthand-int-out-of-range">>} ELSE {})
       \cup (IF pan = 0 /\ ~wantPan /\ c >= 50 /\ c <= 55 /\ r[9] # a[1] THEN {<<"C06", "shorthand-int">>} ELSE {})
       \cup (IF pan = 0 /\ ~wantPan /\ c = 56 /\ Sub(r, 9, 3) # <<a[1], a[2], a[3]>> THEN {<<"C06", "shorthand-cc14">>} ELSE {})
       \cup (IF pan = 0 /\ ~wantPan /\ c \in 57..60
                /\ Sub(r, 9, 6) # <<a[1], a[2], a[3], B2I(c >= 59), B2I(c \in {58, 60}), 0>>
             THEN {<<"C06", "shorthand-pn">>} ELSE {})
       \cup (IF r[8] = 0 THEN {} ELSE {<<"C18", "alloc">>})

(******************************* table `pnmsg` *****************************)
PnmsgViol(r) ==
    LET c == r[1]
        msg == <<r[2], r[3], r[4], B2I(c >= 4), B2I(c % 4 = 1), CASE c % 4 = 2 -> 2 [] c % 4 = 3 -> 1 [] OTHER -> 0>>
        ord == IF r[5] = 0 THEN "msb" ELSE "lsb"
    IN IF ~PnValid(msg) THEN {<<"TOOL", "bad-pnmsg-row">>}
       ELSE IF r[7] # 0 THEN {<<"C09", "constructor-panics">>, <<"C18", "panic-on-valid-input">>}
       ELSE LET e == PnEncode(msg, ord)
                flat(i) == IF e[i] = NoMsg THEN <<-1, -1, -1>> ELSE e[i]
                want == flat(1) \o flat(2) \o flat(3) \o flat(4)
            IN (IF Sub(r, 9, 6) = msg THEN {} ELSE {<<"C09", "accessors">>})
               \cup (IF Sub(r, 15, 12) = want THEN {}
                     ELSE {<<"C09", "encode-slot" \o ToString(((FirstDiff(Sub(r, 15, 12), want) - 1) \div 3) + 1)>>})
               \cup (IF r[27] = 1 THEN {} ELSE {<<"C09", "array-conversion">>})
               \cup (IF r[8] = 0 THEN {} ELSE {<<"C18", "alloc">>})
               \cup (IF \A j \in {16, 17, 19, 20, 22, 23, 25, 26} : r[j] <= 127 THEN {} ELSE {<<"C04", "data-byte-out-of-range">>})

(******************************* table `serde` *****************************)
(* C19: ok => the value could have been built through the checked constructors;             *)
(*      the natural representation of a valid value deserializes to an equal value.         *)
SerdeViol(r) ==
    CASE r[1] = 0 ->        \* [0,T,form,cls,v,ok,res]; form 0 = JSON integer; forms >= 10: the other data
                            \* formats of tree_de.rs (10 + 10 * way + {0 number, 1 byte string, 2 string, 3 [n]})
           (IF r[6] = -2 THEN {<<"C19", "deserialize-panics">>} ELSE {})
           \cup (IF r[6] = 1 /\ ~InRange(r[2], r[7]) THEN {<<"C19", "int-out-of-range-accepted">>} ELSE {})
           \* an in-range integer in the natural form comes out unchanged; an out-of-range one that is accepted
           \* with an in-range result (masking, clamping) is within the letter of C19: a NOTE, not a verdict
           \cup (IF r[6] = 1 /\ (r[3] = 0 \/ (r[3] >= 10 /\ r[3] % 10 = 0)) /\ ~(r[4] = 0 /\ r[7] = r[5])
                 THEN {<<IF TryOk(r[2], r[4], r[5]) THEN "C19" ELSE "NOTE", "int-value-changed">>} ELSE {})
           \cup (IF r[3] = 0 /\ TryOk(r[2], r[4], r[5]) /\ r[6] # 1 THEN {<<"C19", "int-valid-rejected">>} ELSE {})
      [] r[1] = 1 ->        \* [1,T,src,cls,v,ok,res]; serde primitive value deserializers
           (IF r[6] = -2 THEN {<<"C19", "deserialize-panics">>} ELSE {})
           \cup (IF r[6] = 1 /\ ~(InRange(r[2], r[7]) /\ r[4] = 0 /\ r[7] = r[5]) THEN {<<"C19", "int-out-of-range-accepted">>} ELSE {})
           \* demanded only for the NATURAL primitive of the type (what Serialize emits): u8, or u16 for U14
           \cup (IF r[3] = (IF r[2] = 2 THEN 2 ELSE 0) /\ TryOk(r[2], r[4], r[5]) /\ r[6] # 1
                 THEN {<<"C19", "int-valid-rejected">>} ELSE {})
      \* Composite types.  The inputs are natural representations with fields patched to the listed values.
      \* Accepted rows end with `alias`: 1 = the input IS the natural representation of the value that came out
      \* (in a representation that packs several fields into one number, a patched "out-of-range field" can be
      \* the representation of another valid value).  Demanded (C19, by the letter): whatever comes out could have
      \* been built through the checked constructors; valid inputs - which are natural representations: the
      \* templates are verified against them - are accepted (JSON) and come out unchanged.  An input with an
      \* out-of-range / inconsistent field that is nobody's natural representation and is accepted with a
      \* constructible result (masking, defaulting) is reported as a NOTE, not as a violation.
      [] r[1] \in {2, 12} ->   \* RawShortMessage from [s,d1,d2] (12: other data formats / byte strings - no completeness)
           IF r[2] = -9 THEN (IF r[5] = -2 THEN {<<"C19", "deserialize-panics">>} ELSE {})
           ELSE LET valid == ValidStatus(r[2]) /\ r[3] \in 0..127 /\ r[4] \in 0..127
                    alias == r[5] = 1 /\ r[11] = 1 IN
                (IF r[5] = -2 THEN {<<"C19", "deserialize-panics">>} ELSE {})
                \cup (IF r[5] = 1 /\ ~(ValidStatus(r[6]) /\ r[7] \in 0..127 /\ r[8] \in 0..127)
                      THEN {<<"C19", "raw-invalid-accepted">>} ELSE {})
                \cup (IF r[5] = 1 /\ ~valid /\ ~alias THEN {<<"NOTE", "raw-non-natural-input-accepted">>} ELSE {})
                \cup (IF r[1] = 2 /\ valid /\ r[5] # 1 THEN {<<"C19", "raw-valid-rejected">>} ELSE {})
                \cup (IF valid /\ r[5] = 1 /\ ~(<<r[6], r[7], r[8]>> = <<r[2], r[3], r[4]>> /\ r[9] = TypeOf(r[2]))
                      THEN {<<"C19", "raw-value-changed">>} ELSE {})
                \cup (IF r[5] = 1 /\ (r[9] = -2 \/ r[10] = -2) THEN {<<"C19", "raw-accessor-panics-after-deserialize">>} ELSE {})
      [] r[1] \in {3, 9} ->   \* ControlChange14BitMessage (3: JSON map - with completeness; 9: every other way)
           LET valid == r[2] \in 0..15 /\ r[3] \in 0..31 /\ r[4] \in 0..16383
               alias == r[5] = 1 /\ r[11] = 1 IN
           (IF r[5] = -2 THEN {<<"C19", "deserialize-panics">>} ELSE {})
           \cup (IF r[5] = 1 /\ ~(r[6] \in 0..15 /\ r[7] \in 0..31 /\ r[8] \in 0..16383)
                 THEN {<<"C19", "cc14-invalid-accepted">>} ELSE {})
           \cup (IF r[5] = 1 /\ ~valid /\ ~alias THEN {<<"NOTE", "cc14-non-natural-input-accepted">>} ELSE {})
           \cup (IF r[1] = 3 /\ valid /\ r[5] # 1 THEN {<<"C19", "cc14-valid-rejected">>} ELSE {})
           \cup (IF r[5] = 1 /\ (r[9] = -2 \/ r[10] = -2) THEN {<<"C19", "cc14-accessor-panics-after-deserialize">>} ELSE {})
           \cup (IF valid /\ r[5] = 1 /\ ~(<<r[6], r[7], r[8]>> = <<r[2], r[3], r[4]>> /\ r[9] = r[3] + 32 /\ r[10] = r[3] + 32)
                 THEN {<<"C19", "cc14-value-changed">>} ELSE {})
      [] r[1] \in {4, 8} ->   \* ParameterNumberMessage (4: JSON map - with completeness; 8: every other way)
           LET msg == <<r[2], r[3], r[4], r[5], r[6], r[7]>>
               valid == r[7] <= 2 /\ PnValid(msg)
               alias == r[8] = 1 /\ r[16] = 1 IN
           (IF r[8] = -2 THEN {<<"C19", "deserialize-panics">>} ELSE {})
           \cup (IF r[8] = 1 /\ ~(r[14] <= 2 /\ PnValid(Sub(r, 9, 6))) THEN {<<"C19", "pn-inconsistent-accepted">>} ELSE {})
           \cup (IF r[8] = 1 /\ ~valid /\ ~alias THEN {<<"NOTE", "pn-non-natural-input-accepted">>} ELSE {})
           \cup (IF r[1] = 4 /\ valid /\ r[8] # 1 THEN {<<"C19", "pn-valid-rejected">>} ELSE {})
           \cup (IF r[8] = 1 /\ ~(r[15] \in 0..127) THEN {<<"C19", "pn-encoder-fails-after-deserialize">>} ELSE {})
           \cup (IF valid /\ r[8] = 1 /\ Sub(r, 9, 6) # msg THEN {<<"C19", "pn-value-changed">>} ELSE {})
      [] r[1] \in {5, 15} ->   \* StructuredShortMessage (5: JSON - with completeness; 15: every other way)
           LET x == <<r[2], r[3], r[4], r[5]>>  valid == StructuredValid(x)
               alias == r[6] = 1 /\ r[11] = 1 IN
           (IF r[6] = -2 THEN {<<"C19", "deserialize-panics">>} ELSE {})
           \cup (IF r[6] = 1 /\ ~StructuredValid(Sub(r, 7, 4)) THEN {<<"C19", "structured-invalid-accepted">>} ELSE {})
           \cup (IF r[6] = 1 /\ ~valid /\ ~alias THEN {<<"NOTE", "structured-non-natural-input-accepted">>} ELSE {})
           \cup (IF r[1] = 5 /\ valid /\ r[6] # 1 THEN {<<"C19", "structured-valid-rejected">>} ELSE {})
           \cup (IF valid /\ r[6] = 1 /\ Sub(r, 7, 4) # x THEN {<<"C19", "structured-value-changed">>} ELSE {})
      [] r[1] = 18 ->       \* blind mutation of a natural ParameterNumberMessage: [18, way, ok, rep(6), enc]
           (IF r[3] = -2 THEN {<<"C19", "deserialize-panics">>} ELSE {})
           \cup (IF r[3] = 1 /\ ~(r[9] <= 2 /\ PnValid(Sub(r, 4, 6))) THEN {<<"C19", "pn-inconsistent-accepted">>} ELSE {})
           \cup (IF r[3] = 1 /\ ~(r[10] \in 0..127) THEN {<<"C19", "pn-encoder-fails-after-deserialize">>} ELSE {})
      [] r[1] = 19 ->       \* the same for ControlChange14BitMessage: [19, way, ok, ch, cn, value, lsb, enc]
           (IF r[3] = -2 THEN {<<"C19", "deserialize-panics">>} ELSE {})
           \cup (IF r[3] = 1 /\ ~(r[4] \in 0..15 /\ r[5] \in 0..31 /\ r[6] \in 0..16383)
                 THEN {<<"C19", "cc14-invalid-accepted">>} ELSE {})
           \cup (IF r[3] = 1 /\ (r[7] = -2 \/ r[8] = -2) THEN {<<"C19", "cc14-accessor-panics-after-deserialize">>} ELSE {})
      [] r[1] = 6 ->        \* ShortMessageType
           (IF r[3] = B2I(r[2] \in TypeBytes) THEN {} ELSE {<<"C19", "type-accepts-iff-valid">>})
           \cup (IF r[3] = 1 /\ r[4] # r[2] THEN {<<"C19", "type-value-changed">>} ELSE {})
      [] r[1] = 7 ->        \* natural representation round trip
           (IF r[7] = 1 /\ r[8] = 1 THEN {} ELSE {<<"C19", "natural-representation-roundtrip">>})
      [] r[1] = 17 ->       \* the same in a format that presents structs as sequences: a Deserialize that only
                            \* reads maps may refuse; if it accepts, the value is equal
           (IF r[7] = -2 THEN {<<"C19", "deserialize-panics">>} ELSE {})
           \cup (IF r[7] = 1 /\ r[8] # 1 THEN {<<"C19", "natural-representation-roundtrip">>} ELSE {})

(******************************** table `misc` *****************************)
(* growth beyond the listed properties: derived Ord / Eq / Hash follow the table order *)
RECURSIVE LexCmp(_, _)
LexCmp(a, b) == IF a = <<>> THEN 1
                ELSE IF Head(a) < Head(b) THEN 0 ELSE IF Head(a) > Head(b) THEN 2 ELSE LexCmp(Tail(a), Tail(b))
MiscViol(r) ==
    CASE r[1] = 0 ->
           LET a == Sub(r, 2, 4)  b == Sub(r, 6, 4) IN
           (IF r[10] = LexCmp(a, b) THEN {} ELSE {<<"GROWTH", "structured-ord">>})
           \cup (IF r[11] = B2I(a = b) THEN {} ELSE {<<"GROWTH", "structured-eq">>})
           \cup (IF a = b => r[12] = 1 THEN {} ELSE {<<"GROWTH", "structured-hash">>})
           \cup (IF r[13] = B2I(BytesOf(a) = BytesOf(b)) THEN {} ELSE {<<"GROWTH", "raw-eq">>})
      [] r[1] = 1 -> (IF r[4] = (IF r[2] < r[3] THEN 0 ELSE IF r[2] = r[3] THEN 1 ELSE 2) /\ r[5] = B2I(r[2] = r[3])
                      THEN {} ELSE {<<"GROWTH", "type-ord">>})
      [] r[1] = 2 -> (IF r[2] = 128 /\ r[3] = 255 THEN {} ELSE {<<"GROWTH", "type-min-max">>})
      [] r[1] = 3 -> (IF r[3] = B2I(r[2] <= 3) /\ (r[3] = 1 => r[4] = r[2]) THEN {} ELSE {<<"GROWTH", "time-code-type">>})

(******************************** table `first` ****************************)
(* r = [impl (0 raw, 1 structured, 2 byte-getter-only third party), j, s, d1, d2, first, vec(26)]:        *)
(* accessor j (0-based cell of the observation vector) was the FIRST query a fresh process made.            *)
FirstViol(r) ==
    LET imp == r[1]  j == r[2]  s == r[3]  d1 == r[4]  d2 == r[5]
        c == Canon(s, d1, d2)
        exp == IF imp = 1 THEN Obs(c[1], c[2], c[3]) ELSE Obs(s, d1, d2)
        vec == Sub(r, 7, 26)
    IN (IF r[6] = exp[j + 1] THEN {} ELSE {<<"C02", "first-query-of-a-process">>, <<"C03", "first-query-of-a-process">>})
       \cup (IF vec = exp THEN {} ELSE {<<"C02", "after-first-query">>, <<"C03", "after-first-query">>})
       \cup (IF HasPanic(r) THEN {<<"C18", "panic">>} ELSE {})

RowViol(r) == CASE Table = "short" -> ShortViol(r)
                [] Table = "first" -> FirstViol(r)
                [] Table = "misc" -> MiscViol(r)
                [] Table = "serde" -> SerdeViol(r)
                [] Table = "factory" -> FactoryViol(r)
                [] Table = "pnmsg" -> PnmsgViol(r)
                [] Table = "ints" -> IntsViol(r)
                [] Table = "structured" -> StructViol(r)
                [] Table = "types" -> TypesViol(r)

JudgeChunk(c) ==
    LET rows == ndJsonDeserialize(Dir \o "/chunk_" \o ToString(c) \o ".ndjson") IN
    /\ \A i \in 1..Len(rows) : \A f \in RowViol(rows[i]) : PrintT(<<"ROWBAD", f[1], f[2], c, i>>)
    /\ PrintT(<<"CHUNK", c, Len(rows)>>)

Init == k \in 1..K /\ phase = 0
Next == /\ phase = 0 /\ phase' = 1 /\ k' = k
        /\ JudgeChunk(k)
Spec == Init /\ [][Next]_vars
===============================================================================
