------------------------------ MODULE TraceWorld ------------------------------
(***************************************************************************)
(* Trace validation for the three scanners (impl -> spec).                 *)
(*                                                                          *)
(* The trace (ndjson, IOEnv.TRACE) was recorded from the real code by      *)
(* harness `exec`: one event per public call, logged at the call's return. *)
(* The world consists of scanner instances (`id`), each with its own mock  *)
(* clock (the time unit of the world is HALF a millisecond).  For every   *)
(* event this specification                                                *)
(*   - steps the implementation-shaped MACHINE of that scanner with the    *)
(*     logged arguments and compares the logged result (disagreement =     *)
(*     DRIFT: the model no longer describes the code; not a verdict),      *)
(*   - evaluates the property-shaped MONITORS on the logged result         *)
(*     (disagreement = VIOL <property> <clause> <event index>),            *)
(*   - updates the monitors' ghost state from the logged inputs/outputs.   *)
(* The run never blocks: every event is consumed, every finding printed.   *)
(***************************************************************************)
EXTENDS Cc14Scanner, PnScanner, PollingScanner, TLC, Json, IOUtils, FiniteSets

Rec == ndJsonDeserialize(IOEnv.TRACE)
N   == Len(Rec)
UseHistory == "HISTORY" \in DOMAIN IOEnv /\ IOEnv.HISTORY = "1"

VARIABLES l,       \* index of the next event
          inst,    \* id -> [k, to, now, ch, acc]
          mh,      \* machine-predicted outs of the most recent events (for twin checks)
          stats,   \* counters for the vacuity report
          stable   \* the most recent call left the whole world (machines and monitors) unchanged
vars == <<l, inst, mh, stats, stable>>

Has(e, f) == f \in DOMAIN e

(******************************* plumbing **********************************)
InitChan(k) == CASE k = "cc14" -> [m |-> Cc14Init, g |-> Cc14GhostInit]
                 [] k = "pn"   -> [m |-> PnInit,   g |-> PnGhostInit]
                 [] k = "poll" -> [m |-> PollInit, g |-> PgInit]
ChanSt(i, c) == IF c \in DOMAIN i.ch THEN i.ch[c] ELSE InitChan(i.k)
SetChan(f, c, v) == [x \in (DOMAIN f) \cup {c} |-> IF x = c THEN v ELSE f[x]]
SetInst(f, id, v) == [x \in (DOMAIN f) \cup {id} |-> IF x = id THEN v ELSE f[x]]
Fresh(k, to, now) == [k |-> k, to |-> to, now |-> now, ch |-> <<>>, acc |-> <<>>]

MachineFeed(k, st, m, now) ==
    CASE k = "cc14" -> Cc14Feed(st, m)
      [] k = "pn"   -> PnFeed(st, m)
      [] k = "poll" -> PollFeed(st, m, now)
GhostFeed(k, g, m, o, now) ==
    CASE k = "cc14" -> Cc14GhostFeed(g, m)
      [] k = "pn"   -> PnGhostFeed(g, m)
      [] k = "poll" -> PgFeed(g, m, o, now)
NonContributing(k, m) == IF k = "cc14" THEN Cc14NonContributing(m) ELSE PnNonContributing(m)

Bump(s, keys) == [x \in (DOMAIN s) \cup keys |->
                    (IF x \in DOMAIN s THEN s[x] ELSE 0) + (IF x \in keys THEN 1 ELSE 0)]

Push(h, o) == IF Len(h) >= 40 THEN Tail(h) \o <<o>> ELSE h \o <<o>>

(************ history form of the C08 / C11 monitors (backward scans) ******)
(* The most recent feed on the lineage of instance `id` and channel c      *)
(* whose controller number is in cns, scanning back from event j; stops at *)
(* creation or reset.  Result: <<index, message>> or <<>>.                  *)
RECURSIVE HScan(_, _, _, _)
HScan(j, id, c, cns) ==
    IF j < 1 THEN <<>>
    ELSE LET e == Rec[j] IN
         IF e.op \in {"new", "reset"} /\ e.id = id THEN <<>>
         ELSE IF e.op = "copy" /\ e.to2 = id THEN HScan(j - 1, e.id, c, cns)
         ELSE IF e.op = "feed" /\ e.id = id /\ IsCC(e.m) /\ MsgChannel(e.m) = c
                 /\ CcNum(e.m) \in cns THEN <<j, e.m>>
         ELSE HScan(j - 1, id, c, cns)

HistCc14Ghost(id, c) ==
    LET h == HScan(l - 1, id, c, 0..31) IN IF h = <<>> THEN <<>> ELSE <<CcNum(h[2]), CcVal(h[2])>>

HistPnGhost(id, c) ==
    LET hm == HScan(l - 1, id, c, {99, 101})
        hl == HScan(l - 1, id, c, {98, 100})
        hn == HScan(l - 1, id, c, {98, 99, 100, 101})
        h38 == HScan(l - 1, id, c, {38})
    IN [nm   |-> IF hm = <<>> THEN None ELSE CcVal(hm[2]),
        nl   |-> IF hl = <<>> THEN None ELSE CcVal(hl[2]),
        kind |-> IF hn = <<>> THEN FALSE ELSE CcNum(hn[2]) \in {100, 101},
        v38  |-> IF h38 = <<>> THEN None
                 ELSE IF hn # <<>> /\ hn[1] > h38[1] THEN None ELSE CcVal(h38[2])]

(************ history form of the C13 / C14 monitor state (declarative) *****)
(* The ghost state of the polling monitor, defined directly over the recorded *)
(* history instead of by step-wise bookkeeping: "the most recent controller-6  *)
(* byte", "a poll at or after its deadline has happened since", ...            *)
(* Rel = indices of the events of this instance's lineage on channel c since    *)
(* creation / reset (feeds whose message is on c, polls of c).                  *)
RECURSIVE RelSet(_, _, _)
RelSet(j, id, c) ==
    IF j < 1 THEN {}
    ELSE LET e == Rec[j] IN
         IF e.op \in {"new", "reset"} /\ e.id = id THEN {}
         ELSE IF e.op = "copy" /\ e.to2 = id THEN RelSet(j - 1, e.id, c)
         ELSE IF (e.op = "feed" /\ e.id = id /\ MsgChannel(e.m) = c) \/ (e.op = "poll" /\ e.id = id /\ e.ch = c)
              THEN {j} \cup RelSet(j - 1, id, c)
         ELSE RelSet(j - 1, id, c)

MaxOr0(S) == IF S = {} THEN 0 ELSE CHOOSE x \in S : \A y \in S : y <= x

HistPg(id, c, to) ==
    LET rel   == RelSet(l - 1, id, c)
        F(cns) == {j \in rel : Rec[j].op = "feed" /\ IsCC(Rec[j].m) /\ CcNum(Rec[j].m) \in cns}
        jm == MaxOr0(F({99, 101}))   jl == MaxOr0(F({98, 100}))   jn == MaxOr0(F({98, 99, 100, 101}))
        j6 == MaxOr0(F({6}))         j38 == MaxOr0(F({38}))       jc == MaxOr0(F(PnControllers))
        T(j) == 2 * Rec[j].now                                   \* half-milliseconds
        LatePollAfter(j0) == \E p \in rel : p > j0 /\ Rec[p].op = "poll" /\ to # Inf /\ T(p) - T(j0) >= to
        CompleteBefore(j) == (\E x \in F({99, 101}) : x < j) /\ (\E x \in F({98, 100}) : x < j)
        lastKind == IF jc = 0 THEN "none"
                    ELSE LET n == CcNum(Rec[jc].m) IN
                         IF n \in {98, 99, 100, 101} THEN "num" ELSE IF n = 6 THEN "cc6"
                         ELSE IF n = 38 THEN "cc38" ELSE "incdec"
    IN [nm   |-> IF jm = 0 THEN None ELSE CcVal(Rec[jm].m),
        nl   |-> IF jl = 0 THEN None ELSE CcVal(Rec[jl].m),
        kind |-> IF jn = 0 THEN FALSE ELSE CcNum(Rec[jn].m) \in {100, 101},
        km   |-> jm > 0 /\ CcNum(Rec[jm].m) = 101,
        kl   |-> jl > 0 /\ CcNum(Rec[jl].m) = 100,
        c6   |-> IF j6 = 0 THEN None ELSE CcVal(Rec[j6].m),
        c6t  |-> IF j6 = 0 THEN 0 ELSE T(j6),
        c38  |-> IF j38 = 0 THEN None ELSE CcVal(Rec[j38].m),
        c38t |-> IF j38 = 0 THEN 0 ELSE T(j38),
        \* the most recent controller-38 byte was paired at once (reported in a 14-bit value by its feed)
        p38  |-> j38 > 0 /\ Has14(Rec[j38].out),
        \* the most recent controller-6 byte has already appeared in a data-entry report
        rep  |-> j6 > 0 /\ (Has14(Rec[j6].out) \/ \E k \in rel : k > j6 /\ HasEntry(Rec[k].out)),
        last |-> lastKind,
        \* the unpaired LSB has met a poll at or after its deadline
        late38 |-> lastKind = "cc38" /\ ~Has14(Rec[j38].out) /\ LatePollAfter(j38),
        \* a controller-6 byte fed with a complete number, not reported as 14-bit at once, still before its
        \* deadline (the next contributing message on the channel or the first poll after the timeout)
        owe  |-> /\ j6 > 0 /\ CompleteBefore(j6) /\ ~Has14(Rec[j6].out)
                 \* (not demanded while the latest MSB and LSB bytes were of different kinds)
                 /\ LET xm == MaxOr0({x \in F({99, 101}) : x < j6})  xl == MaxOr0({x \in F({98, 100}) : x < j6})
                    IN (CcNum(Rec[xm].m) = 101) = (CcNum(Rec[xl].m) = 100)
                 /\ jc = j6 /\ ~LatePollAfter(j6)]

(**************************** common monitors ******************************)
ReportInRange(k, r) ==
    IF k = "cc14" THEN r[1] \in 0..15 /\ r[2] \in 0..31 /\ r[3] \in 0..16383
    ELSE r[1] \in 0..15 /\ r[2] \in 0..16383 /\ r[3] \in 0..16383

CommonViol(k, c, e) ==
    (IF e.al = 0 /\ ~e.pan THEN {} ELSE {<<"C18", IF e.pan THEN "panic" ELSE "alloc">>})
    \cup (IF \A x \in 1..Len(e.out) : ReportInRange(k, e.out[x]) THEN {} ELSE {<<"C04", "range">>})
    \cup (IF c = None
          THEN (IF e.out = <<>> THEN {} ELSE {<<"C15", "system-message">>})
          ELSE (IF \A x \in 1..Len(e.out) : e.out[x][1] = c THEN {} ELSE {<<"C15", "channel">>}))

(* round-trip / running-form groups; returns set of findings *)
GroupViol(i, c, g, e, total) ==
    IF ~Has(e, "grp") THEN {}
    ELSE LET gr == e.grp  msg == gr.msg  last == (gr.i = gr.n) IN
      CASE gr.k = "rt14" ->
             (IF e.op = "feed" /\ e.m = Cc14Encode(msg)[gr.i] THEN {} ELSE {<<"C07", "encode-bytes">>})
             \cup (IF e.out = (IF last THEN <<msg>> ELSE <<>>) THEN {} ELSE {<<"C07", "roundtrip">>})
        [] gr.k = "rtpn" ->
             (IF e.op = "feed" /\ e.m = PnEncodeSeq(msg, gr.ord)[gr.i] THEN {} ELSE {<<"C09", "encode-bytes">>})
             \cup (IF e.out = (IF last THEN <<msg>> ELSE <<>>) THEN {} ELSE {<<"C10", "roundtrip">>})
        [] gr.k = "run" ->
             LET vb == SubSeq(PnEncodeSeq(msg, "lsb"), 3, Len(PnEncodeSeq(msg, "lsb"))) IN
             (IF /\ e.op = "feed" /\ gr.i <= Len(vb) /\ e.m = vb[gr.i]
                 /\ g.nm = Hi(msg[2]) /\ g.nl = Lo(msg[2]) /\ B2I(g.kind) = msg[4]
              THEN {} ELSE {<<"TOOL", "bad-run-script">>})
             \cup (IF e.out = (IF last THEN <<msg>> ELSE <<>>) THEN {} ELSE {<<"C10", "running">>})
        [] gr.k = "rtp" ->
             (IF e.op = "feed" => e.m = PnEncodeSeq(msg, gr.ord)[gr.i] THEN {} ELSE {<<"C09", "encode-bytes">>})
             \cup (IF last => (\/ total = <<msg>>
                               \/ Len(total) = 2 /\ total[2] = msg /\ IsEntry7(total[1]))
                   THEN {} ELSE {<<"C12", "encode-roundtrip">>})
        [] OTHER -> {<<"TOOL", "unknown-group">>}

AnnotViol(e, mout) ==
    (IF Has(e, "exp") => e.out = e.exp THEN {} ELSE {<<IF Has(e, "expp") THEN e.expp ELSE "C12", "intended">>})
    \cup
    (IF Has(e, "tw") /\ e.tw > 0
     THEN IF e.tw > Len(mh) \/ mh[Len(mh) + 1 - e.tw] # mout THEN {<<"TOOL", "bad-twin">>}
          ELSE IF e.out = Rec[l - e.tw].out THEN {} ELSE {<<e.twp, "twin">>}
     ELSE {})

Emit(findings) == \A f \in findings : PrintT(<<"VIOL", f[1], f[2], l>>)

(********************************* events **********************************)
NewEv(e) ==
    LET now0 == IF Has(e, "now") THEN e.now ELSE 0
        viadef == Has(e, "via") /\ e.via = "default"
        f == (IF e.al = 0 /\ ~e.pan THEN {} ELSE {<<"C18", "new">>})
             \cup (IF (e.k # "poll" \/ (e.to = 0 /\ ~Has(e, "toh"))) => e.eqd THEN {} ELSE {<<"C17", "new-default">>})
        \* the world's time unit is HALF a millisecond: "to" is in ms (negative = infinite, also the
        \* 'effectively infinite' huge timeouts), "toh" in half-ms; ticks are logged in ms
        to2 == IF viadef THEN 0
               ELSE IF Has(e, "toh") THEN (IF e.toh < 0 THEN Inf ELSE e.toh)
               ELSE IF e.to < 0 THEN Inf ELSE 2 * e.to
    IN /\ Emit(f)
       /\ inst' = SetInst(inst, e.id, Fresh(e.k, to2, 2 * now0))
       /\ mh' = Push(mh, <<>>)
       /\ stats' = Bump(stats, {"new." \o e.k})

FeedEv(e) ==
    LET i  == inst[e.id]
        c  == MsgChannel(e.m)
        cs == IF c = None THEN InitChan(i.k) ELSE ChanSt(i, c)
        r  == IF c = None THEN [st |-> cs.m, out |-> <<>>] ELSE MachineFeed(i.k, cs.m, e.m, i.now)
        gg == IF UseHistory /\ c # None /\ i.k = "cc14" THEN HistCc14Ghost(e.id, c)
              ELSE IF UseHistory /\ c # None /\ i.k = "pn" THEN HistPnGhost(e.id, c)
              ELSE IF UseHistory /\ c # None /\ i.k = "poll" THEN HistPg(e.id, c, i.to)
              ELSE cs.g
        gap == Has(e, "gap") /\ e.gap
        total == IF Has(e, "grp") /\ e.grp.i > 1 THEN i.acc \o e.out ELSE e.out
        mon == IF c = None
               THEN (IF e.out = <<>> \/ i.k = "poll" THEN {}     \* C08 / C11: "every other input yields nothing"
                     ELSE {<<IF i.k = "cc14" THEN "C08" ELSE "C11", "exact">>})
               ELSE CASE i.k = "cc14" ->
                           (IF e.out = Cc14Expected(gg, e.m) THEN {} ELSE {<<"C08", "exact">>})
                      [] i.k = "pn" ->
                           (IF e.out = PnExpected(gg, e.m) THEN {} ELSE {<<"C11", "exact">>})
                      [] i.k = "poll" ->
                           {<<IF x \in {"C13l", "C13p"} THEN "C13" ELSE "C14", x>> :
                                x \in PollFeedViolations(gg, e.m, e.out, gap, i.now, i.to)}
        \* C16: any message that cannot be part of the scanned construct (channel-less ones included)
        c16 == IF (c = None \/ NonContributing(i.k, e.m)) /\ ~(e.out = <<>> /\ e.eqp)
               THEN {<<"C16", "transparent">>} ELSE {}
        ghostOK == (UseHistory /\ c # None) => gg = cs.g
        g2 == IF c = None THEN cs.g ELSE GhostFeed(i.k, cs.g, e.m, e.out, i.now)
        i2 == IF c = None THEN i ELSE [i EXCEPT !.ch = SetChan(i.ch, c, [m |-> r.st, g |-> g2])]
        i3 == [i2 EXCEPT !.acc = IF Has(e, "grp") THEN total ELSE i2.acc]
        keys == {"feed." \o i.k}
                \cup (IF e.out # <<>> THEN {"feed." \o i.k \o ".report"} ELSE {})
                \cup (IF Len(e.out) = 2 THEN {"feed.poll.two"} ELSE {})
                \cup (IF c = None THEN {"feed.system"} ELSE {})
                \cup (IF c # None /\ NonContributing(i.k, e.m) THEN {"feed.noncontrib"} ELSE {})
                \cup (IF Has(e, "tw") /\ e.tw > 0 THEN {"twin." \o e.twp} ELSE {})
                \cup (IF Has(e, "grp") /\ e.grp.i = e.grp.n THEN {"grp." \o e.grp.k} ELSE {})
                \cup (IF Has(e, "exp") THEN {"exp"} ELSE {})
                \cup (IF i.k = "poll" /\ c # None /\ cs.g.owe /\ IsPnContrib(e.m) THEN {"C14e.feed"} ELSE {})
                \cup (IF i.k = "poll" /\ c # None /\ cs.g.last = "cc38" /\ cs.g.late38
                         /\ IsCC(e.m) /\ CcNum(e.m) = 6 THEN {"C13l"} ELSE {})
    IN /\ Emit(mon \cup c16 \cup CommonViol(i.k, c, e) \cup GroupViol(i, c, cs.g, e, total)
               \cup AnnotViol(e, r.out))
       /\ (IF r.out = e.out THEN TRUE ELSE PrintT(<<"DRIFT", "out", l>>))
       /\ (IF (e.eqp = (r.st = cs.m)) THEN TRUE ELSE PrintT(<<"DRIFT", "eqp", l>>))
       /\ (IF ghostOK THEN TRUE ELSE PrintT(<<"TOOLERR", "ghost-vs-history", l>>))
       /\ inst' = SetInst(inst, e.id, i3)
       /\ mh' = Push(mh, r.out)
       /\ stats' = Bump(stats, keys)

(* Measured real clock (events with `rt`): the driver's filter kept this poll because the bracketing     *)
(* readings r0 <= r1 (microseconds) CONFIRM its class in declared time `sn` (ms) against every earlier   *)
(* feed of the same instance and channel - the predicates of MC_Brackets.  TLC re-checks that here; a    *)
(* poll that should have been discarded is a defect of the machinery (TOOLERR), never a verdict.         *)
RtConfirmed(j, to) ==
    LET e == Rec[j]
        news == {s \in 1..(j - 1) : Rec[s].op = "new" /\ Rec[s].id = e.id}
        start == IF news = {} THEN 0 ELSE CHOOSE s \in news : \A t \in news : t <= s
        fs == {f \in (start + 1)..(j - 1) : /\ Rec[f].op = "feed" /\ Rec[f].id = e.id /\ Has(Rec[f], "rt")
                                            /\ MsgChannel(Rec[f].m) = e.ch}
    IN \A f \in fs : IF 2 * (e.sn - Rec[f].sn) >= to
                      THEN 2 * (e.r0 - Rec[f].r1) >= 1000 * to      \* confirmed late   (to is in half-ms)
                      ELSE 2 * (e.r1 - Rec[f].r0) < 1000 * to       \* confirmed early

PollEv(e) ==
    LET i  == inst[e.id]
        c  == e.ch
        cs == ChanSt(i, c)
        r  == PollPoll(cs.m, c, i.now, i.to)
        total == IF Has(e, "grp") /\ e.grp.i > 1 THEN i.acc \o e.out ELSE e.out
        gg == IF UseHistory THEN HistPg(e.id, c, i.to) ELSE cs.g
        mon == {<<IF x \in {"C13l", "C13p"} THEN "C13" ELSE "C14", x>> :
                   x \in PollPollViolations(gg, c, e.out, i.now, i.to)}
        early == Has(e, "early") /\ e.early
        g2 == PgPoll(cs.g, e.out, i.now, i.to)
        i2 == [i EXCEPT !.ch = SetChan(i.ch, c, [m |-> r.st, g |-> g2]),
                         !.acc = IF Has(e, "grp") THEN total ELSE i.acc]
        keys == {"poll"}
                \cup (IF e.out # <<>> THEN {"poll.report"} ELSE {})
                \cup (IF cs.g.owe /\ ~Late(cs.g.c6t, i.now, i.to) THEN {"poll.early.pending"} ELSE {})
                \cup (IF cs.g.owe /\ Late(cs.g.c6t, i.now, i.to) THEN {"poll.late.pending"} ELSE {})
                \cup (IF cs.g.last = "cc38" /\ ~cs.g.late38 /\ Late(cs.g.c38t, i.now, i.to)
                      THEN {"poll.late.lsb"} ELSE {})
                \cup (IF early THEN {"poll.early.flag"} ELSE {})
                \cup (IF Has(e, "tw") /\ e.tw > 0 THEN {"twin." \o e.twp} ELSE {})
                \cup (IF Has(e, "grp") /\ e.grp.i = e.grp.n THEN {"grp." \o e.grp.k} ELSE {})
                \cup (IF Has(e, "exp") THEN {"exp"} ELSE {})
    IN /\ Emit(mon \cup CommonViol(i.k, c, e) \cup GroupViol(i, c, cs.g, e, total)
               \cup AnnotViol(e, r.out)
               \cup (IF early /\ ~PollIsEarly(cs.g, i.now, i.to) THEN {<<"TOOL", "bad-early-flag">>} ELSE {}))
       /\ (IF r.out = e.out THEN TRUE ELSE PrintT(<<"DRIFT", "out", l>>))
       /\ (IF (e.eqp = (r.st = cs.m)) THEN TRUE ELSE PrintT(<<"DRIFT", "eqp", l>>))
       /\ (IF gg = cs.g THEN TRUE ELSE PrintT(<<"TOOLERR", "ghost-vs-history", l>>))
       /\ (IF Has(e, "rt") /\ i.to # Inf /\ ~RtConfirmed(l, i.to)
           THEN PrintT(<<"TOOLERR", "real-time-poll-not-confirmed-by-its-brackets", l>>) ELSE TRUE)
       /\ inst' = SetInst(inst, e.id, i2)
       /\ mh' = Push(mh, r.out)
       /\ stats' = Bump(stats, keys \cup (IF Has(e, "rt") THEN {"poll.rt"} ELSE {}))

TickEv(e) ==
    /\ inst' = [x \in DOMAIN inst |->
                  IF e.id < 0 \/ x = e.id THEN [inst[x] EXCEPT !.now = @ + 2 * e.dt] ELSE inst[x]]
    /\ mh' = Push(mh, <<>>)
    /\ stats' = Bump(stats, {"tick"})

ResetEv(e) ==
    LET i == inst[e.id]
        f == (IF e.al = 0 /\ ~e.pan THEN {} ELSE {<<"C18", "reset">>})
             \cup (IF e.eqn THEN {} ELSE {<<"C17", "reset-eq-new">>})
    IN /\ Emit(f)
       /\ inst' = SetInst(inst, e.id, [i EXCEPT !.ch = <<>>, !.acc = <<>>])
       /\ mh' = Push(mh, <<>>)
       /\ stats' = Bump(stats, {"reset." \o i.k})

CopyEv(e) ==
    /\ (IF e.eqc THEN TRUE ELSE PrintT(<<"VIOL", "C17", "copy-eq", l>>))
    /\ inst' = SetInst(inst, e.to2, inst[e.id])
    /\ mh' = Push(mh, <<>>)
    /\ stats' = Bump(stats, {"copy"})

MachineEq(a, b) ==
    /\ a.k = b.k /\ a.to = b.to
    /\ \A c \in 0..15 : ChanSt(a, c).m = ChanSt(b, c).m

EqEv(e) ==
    LET a == inst[e.id]  b == inst[e.b]
        meq == MachineEq(a, b)
        want == Has(e, "xe") /\ e.xe
        f == IF want THEN (IF ~meq THEN {<<"TOOL", "bad-eq-script">>}
                           ELSE IF e.r THEN {} ELSE {<<e.xp, "equal">>})
             ELSE {}
    IN /\ Emit(f)
       /\ (IF (e.r = meq) THEN TRUE ELSE PrintT(<<"DRIFT", "eq", l>>))
       /\ UNCHANGED inst
       /\ mh' = Push(mh, <<>>)
       /\ stats' = Bump(stats, {"eq"})

EncEv(e) ==
    LET is14 == (e.op = "enc14")
        msg == e.msg
        panics == IF is14 THEN Cc14NewPanics(msg[2]) ELSE FALSE
        want == IF panics THEN <<>>
                ELSE IF is14 THEN Cc14Encode(msg) ELSE PnEncodeSeq(msg, e.ord)
        f == (IF e.pan = panics THEN {} ELSE {<<IF is14 THEN "C07" ELSE "C09", "ctor-panic">>})
             \cup (IF e.bytes = want THEN {} ELSE {<<IF is14 THEN "C07" ELSE "C09", "encode">>})
             \cup (IF is14 \/ panics \/ e.slots = PnEncode(msg, e.ord) THEN {} ELSE {<<"C09", "slots">>})
             \* C07: the message reports back its channel, controller numbers (LSB = MSB + 32) and value
             \cup (IF is14 /\ ~panics /\ ~e.pan /\ e.acc # <<msg[1], msg[2], msg[2] + 32, msg[3]>>
                   THEN {<<"C07", "accessors">>} ELSE {})
             \cup (IF e.al = 0 THEN {} ELSE {<<"C18", "alloc-encode">>})
    IN /\ Emit(f)
       /\ UNCHANGED inst
       /\ mh' = Push(mh, <<>>)
       /\ stats' = Bump(stats, {e.op})

(* "skip n": the harness repeated the previous call n more times and every repetition returned  *)
(* exactly what the logged one returned (long runs are summarised, not logged one by one).     *)
(* This is only a faithful summary if repeating the call is a no-op for the specification too: *)
(* the previous (logged) repetition must have left machines and monitors unchanged.            *)
SkipEv(e) ==
    /\ (IF stable THEN TRUE ELSE PrintT(<<"TOOLERR", "skip-after-a-call-that-changed-the-state", l>>))
    /\ UNCHANGED inst
    /\ mh' = Push(mh, <<>>)
    /\ stats' = Bump(Bump(stats, {"skip"}), IF e.n >= 200 THEN {"skip.long"} ELSE {})

Init == l = 1 /\ inst = <<>> /\ mh = <<>> /\ stats = <<>> /\ stable = FALSE

Next ==
    /\ l <= N
    /\ LET e == Rec[l] IN
         CASE e.op = "new"   -> NewEv(e)
           [] e.op = "feed"  -> FeedEv(e)
           [] e.op = "poll"  -> PollEv(e)
           [] e.op = "tick"  -> TickEv(e)
           [] e.op = "reset" -> ResetEv(e)
           [] e.op = "copy"  -> CopyEv(e)
           [] e.op = "eq"    -> EqEv(e)
           [] e.op \in {"enc14", "encpn"} -> EncEv(e)
           [] e.op = "skip"  -> SkipEv(e)
    /\ stable' = (IF Rec[l].op = "skip" THEN stable ELSE inst' = inst)
    /\ l' = l + 1
    /\ (IF l' = N + 1 THEN PrintT(<<"DONE", N, ToJson(stats')>>) ELSE TRUE)

Spec == Init /\ [][Next]_vars
===============================================================================
