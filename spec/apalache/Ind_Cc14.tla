------------------------------- MODULE Ind_Cc14 -------------------------------
(***************************************************************************)
(* C08 without value abstraction (Apalache): machine and C08-ghost over    *)
(* the FULL alphabet (16 channels x every status byte x 128 x 128 data).    *)
(* IndInv ties the machine state to the ghost and contains out = expected;  *)
(*   apalache-mc check --init=Init    --inv=IndInv --length=0 Ind_Cc14.tla  *)
(*   apalache-mc check --init=IndInit --inv=IndInv --length=1 Ind_Cc14.tla  *)
(* prove it inductive, i.e. C08 on all histories of the design.             *)
(***************************************************************************)
EXTENDS Cc14Scanner

VARIABLES
    \* @type: Int -> $cc14St;
    sc,
    \* @type: Int -> Seq(Int);
    gh,
    \* @type: Seq(Seq(Int));
    out,
    \* @type: Seq(Seq(Int));
    exp,
    \* @type: Seq(Int);
    rt     \* an arbitrary 14-bit CC message, fixed at the start (for the round-trip theorem)

Chans == 0..15
States == [cn : (-1)..31, v : (-1)..127]
\* the ghost that corresponds to a machine state (used to build the arbitrary IndInv-state)
\* @type: ($cc14St) => Seq(Int);
GhostOf(st) == IF st.cn = None THEN <<>> ELSE <<st.cn, st.v>>

Init == /\ sc = [c \in Chans |-> Cc14Init] /\ gh = [c \in Chans |-> Cc14GhostInit]
        /\ out = <<>> /\ exp = <<>> /\ rt = Msg3(0, 0, 0)

Feed == \E s \in 128..255, d1 \in 0..127, d2 \in 0..127 :
    LET m == Msg3(s, d1, d2)  c == MsgChannel(m) IN
    IF c = None
    THEN UNCHANGED <<sc, gh>> /\ out' = <<>> /\ exp' = <<>>
    ELSE LET r == Cc14Feed(sc[c], m) IN
         /\ sc' = [sc EXCEPT ![c] = r.st]
         /\ gh' = [gh EXCEPT ![c] = Cc14GhostFeed(gh[c], m)]
         /\ out' = r.out
         /\ exp' = Cc14Expected(gh[c], m)

Reset == /\ sc' = [c \in Chans |-> Cc14Reset(sc[c])] /\ gh' = [c \in Chans |-> Cc14GhostReset(gh[c])]
         /\ out' = <<>> /\ exp' = <<>>

Next == (Feed \/ Reset) /\ UNCHANGED rt

\* @type: ($cc14St) => Bool;
InRangeStDummy(st) == TRUE
\* @type: ($cc14St, Seq(Int)) => Bool;
Linked(st, g) == /\ (g = <<>>) <=> (st.cn = None)
                 /\ (st.cn = None) <=> (st.v = None)
                 /\ g # <<>> => (Len(g) = 2 /\ g[1] = st.cn /\ g[2] = st.v)

\* @type: ($cc14St) => Bool;
InRangeSt(st) == st.cn \in (-1)..31 /\ st.v \in (-1)..127
IndInv == /\ \A c \in Chans : InRangeSt(sc[c]) /\ Linked(sc[c], gh[c])
          /\ out = exp            \* C08: what the machine reports is what the property justifies

\* an ARBITRARY state satisfying IndInv: Linked makes gh a function of sc
\* C07 (scanner half) for ALL messages and ALL states consistent with IndInv:
\*   apalache-mc check --init=IndInit --inv=RtInv --length=0 Ind_Cc14.tla
RtInv == Cc14RoundTripOK(sc[rt[1]], rt)

IndInit == /\ sc \in [Chans -> States] /\ gh = [c \in Chans |-> GhostOf(sc[c])]
           /\ \E c \in Chans, n \in 0..31, v \in 0..16383 : rt = Msg3(c, n, v)
           /\ out = <<>> /\ exp = <<>>
           /\ IndInv
===============================================================================
