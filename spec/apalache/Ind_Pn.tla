-------------------------------- MODULE Ind_Pn --------------------------------
(***************************************************************************)
(* C11 without value abstraction (Apalache): (N)RPN machine and C11-ghost  *)
(* over the full alphabet on 16 channels; IndInv contains out = expected.   *)
(***************************************************************************)
EXTENDS PnScanner

VARIABLES
    \* @type: Int -> $pnSt;
    sc,
    \* @type: Int -> $pnGhost;
    gh,
    \* @type: Seq(Seq(Int));
    out,
    \* @type: Seq(Seq(Int));
    exp,
    \* @type: Seq(Int);
    rt     \* an arbitrary (N)RPN message, fixed at the start (for the round-trip theorem)

Chans == 0..15
B7 == (-1)..127
\* @type: ($pnSt) => $pnGhost;
GhostOf(st) == [nm |-> st.nm, nl |-> st.nl, kind |-> st.reg, v38 |-> st.vl]

Init == /\ sc = [c \in Chans |-> PnInit] /\ gh = [c \in Chans |-> PnGhostInit]
        /\ out = <<>> /\ exp = <<>> /\ rt = Pn7(0, 0, 0, FALSE, 0)

Feed == \E s \in 128..255, d1 \in 0..127, d2 \in 0..127 :
    LET m == Msg3(s, d1, d2)  c == MsgChannel(m) IN
    IF c = None
    THEN UNCHANGED <<sc, gh>> /\ out' = <<>> /\ exp' = <<>>
    ELSE LET r == PnFeed(sc[c], m) IN
         /\ sc' = [sc EXCEPT ![c] = r.st]
         /\ gh' = [gh EXCEPT ![c] = PnGhostFeed(gh[c], m)]
         /\ out' = r.out
         /\ exp' = PnExpected(gh[c], m)

Reset == /\ sc' = [c \in Chans |-> PnReset(sc[c])] /\ gh' = [c \in Chans |-> PnGhostReset(gh[c])]
         /\ out' = <<>> /\ exp' = <<>>

Next == (Feed \/ Reset) /\ UNCHANGED rt

\* @type: ($pnSt, $pnGhost) => Bool;
Linked(st, g) == g.nm = st.nm /\ g.nl = st.nl /\ g.v38 = st.vl /\ g.kind = st.reg

\* @type: ($pnSt) => Bool;
InRangeSt(st) == st.nm \in B7 /\ st.nl \in B7 /\ st.vl \in B7
IndInv == /\ \A c \in Chans : InRangeSt(sc[c]) /\ Linked(sc[c], gh[c])
          /\ out = exp

\* C10 for ALL messages and ALL states consistent with IndInv (unrolled, Apalache has no recursion):
\* feeding the LSB-first encoding yields nothing until the last Control Change and then the message
\*   apalache-mc check --init=IndInit --inv=RtInv --length=0 Ind_Pn.tla
\* @type: ($pnSt, Seq(Int)) => Bool;
RoundTripUnrolled(st, msg) ==
    LET e  == PnEncode(msg, "lsb")
        r1 == PnFeed(st, e[1])
        r2 == PnFeed(r1.st, e[2])
        r3 == PnFeed(r2.st, e[3])
    IN /\ r1.out = <<>> /\ r2.out = <<>>
       /\ IF e[4] = NoMsg THEN r3.out = <<msg>>
          ELSE r3.out = <<>> /\ PnFeed(r3.st, e[4]).out = <<msg>>
RtInv == RoundTripUnrolled(sc[rt[1]], rt)

\* an ARBITRARY state satisfying IndInv (field-wise, so that nothing has to be enumerated)
IndInit == /\ \E fm \in [Chans -> B7], fl \in [Chans -> B7], fr \in [Chans -> BOOLEAN], fv \in [Chans -> B7] :
                 sc = [c \in Chans |-> [nm |-> fm[c], nl |-> fl[c], reg |-> fr[c], vl |-> fv[c]]]
           /\ gh = [c \in Chans |-> GhostOf(sc[c])]
           /\ \E c \in Chans, n \in 0..16383, v \in 0..16383, r \in BOOLEAN, k \in 0..3 :
                 rt = IF k = 3 THEN Pn14(c, n, v, r) ELSE Pn7(c, n, v % 128, r, k)
           /\ out = <<>> /\ exp = <<>>
           /\ IndInv
===============================================================================
