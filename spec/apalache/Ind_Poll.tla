------------------------------- MODULE Ind_Poll -------------------------------
(***************************************************************************)
(* C13 / C14 without value or time abstraction (Apalache): the polling     *)
(* machine and the property monitor (ghost) over the FULL alphabet on 16    *)
(* channels, integer time, ANY timeout (every natural number and Inf).      *)
(* IndInv ties every machine field to the ghost and requires that the last  *)
(* step violated no monitor clause; base and step checks prove it           *)
(* inductive, i.e. C13p, C13l, C14a-f hold on all histories of the design.  *)
(***************************************************************************)
EXTENDS PollingScanner, PnScanner

VARIABLES
    \* @type: Int -> $pollSt;
    sc,
    \* @type: Int -> $pollGhost;
    gh,
    \* @type: Int;
    now,
    \* @type: Int;
    to,
    \* @type: Set(Str);
    viol,
    \* @type: Seq(Int);
    rt,    \* an arbitrary (N)RPN message, fixed at the start (for the C12 theorem)
    \* @type: Str;
    rtOrd

Chans == 0..15
B7 == (-1)..127
Phases == {"WNC", "WFV", "VP", "FVC"}
Lasts == {"none", "num", "cc6", "cc38", "incdec"}

Init == /\ sc = [c \in Chans |-> PollInit] /\ gh = [c \in Chans |-> PgInit]
        /\ now = 0 /\ viol = {}
        /\ \E t \in Int : t >= -1 /\ to = t
        /\ rt = Pn7(0, 0, 0, FALSE, 0) /\ rtOrd = "msb"

Feed == \E s \in 128..255, d1 \in 0..127, d2 \in 0..127 :
    LET m == Msg3(s, d1, d2)  c == MsgChannel(m) IN
    IF c = None
    THEN UNCHANGED <<sc, gh, now, to>> /\ viol' = {}
    ELSE LET r == PollFeed(sc[c], m, now) IN
         /\ sc' = [sc EXCEPT ![c] = r.st]
         /\ gh' = [gh EXCEPT ![c] = PgFeed(gh[c], m, r.out, now)]
         /\ viol' = PollFeedViolations(gh[c], m, r.out, FALSE, now, to)
         /\ UNCHANGED <<now, to>>

Poll == \E c \in Chans :
    LET r == PollPoll(sc[c], c, now, to) IN
    /\ sc' = [sc EXCEPT ![c] = r.st]
    /\ gh' = [gh EXCEPT ![c] = PgPoll(gh[c], r.out, now, to)]
    /\ viol' = PollPollViolations(gh[c], c, r.out, now, to)
           \cup (IF PollIsEarly(gh[c], now, to) /\ ~(r.st = sc[c] /\ r.out = <<>>) THEN {"C13early"} ELSE {})
    /\ UNCHANGED <<now, to>>

Tick == \E d \in Int : d >= 0 /\ now' = now + d /\ UNCHANGED <<sc, gh, to>> /\ viol' = {}

Reset == /\ sc' = [c \in Chans |-> PollReset(sc[c])] /\ gh' = [c \in Chans |-> PgReset(gh[c])]
         /\ viol' = {} /\ UNCHANGED <<now, to>>

Next == (Feed \/ Poll \/ Tick \/ Reset) /\ UNCHANGED <<rt, rtOrd>>

\* @type: ($pollSt, $pollGhost, Int) => Bool;
Linked(st, g, t) ==
    /\ st.ph \in Phases /\ g.last \in Lasts
    /\ st.fb \in B7 /\ st.nm \in B7 /\ st.nl \in B7 /\ st.b \in B7 /\ st.vm \in B7 /\ st.vl \in B7
    /\ g.nm \in B7 /\ g.nl \in B7 /\ g.c6 \in B7 /\ g.c38 \in B7
    /\ st.at <= t /\ g.c6t <= t /\ g.c38t <= t
    /\ st.ph = "WNC" =>
         /\ ~(g.nm # None /\ g.nl # None)
         /\ (g.nm = None /\ g.nl = None) => st.fb = None
         /\ g.nm # None => (st.fb = g.nm /\ st.ismsb /\ st.reg = g.kind)
         /\ g.nl # None => (st.fb = g.nl /\ ~st.ismsb /\ st.reg = g.kind)
    /\ st.ph # "WNC" => (st.nm # None /\ st.nl # None /\ g.nm = st.nm /\ g.nl = st.nl /\ g.kind = st.reg)
    /\ g.owe <=> (st.ph = "VP" /\ st.ismsb /\ ~PgMixed(g))
    /\ (st.ph = "VP" /\ st.ismsb) =>
         (st.b # None /\ g.c6 = st.b /\ g.c6t = st.at /\ ~g.rep /\ g.last = "cc6")
    /\ (st.ph = "VP" /\ ~st.ismsb) =>
         (st.b # None /\ g.c38 = st.b /\ g.c38t = st.at /\ g.last = "cc38" /\ ~g.late38)
    /\ st.ph = "FVC" => (st.vm # None /\ st.vl # None /\ g.c6 = st.vm /\ g.c38 = st.vl)

IndInv == /\ now >= 0 /\ to >= -1
          /\ \A c \in Chans : Linked(sc[c], gh[c], now)
          /\ viol = {}                 \* no clause of C13 / C14 was violated by the last step

\* C12 ("consequently") for ALL messages, BOTH byte orders, EVERY finite timeout and ALL states consistent
\* with IndInv: encode, feed, wait for the timeout, poll  =>  exactly the message, preceded at most by the
\* flush of a value that was still pending (unrolled; the empty fourth slot is skipped)
\*   apalache-mc check --init=IndInit --inv=RtInv --length=0 Ind_Poll.tla
\* @type: ($pollSt, $pollGhost, Seq(Int), Str, Int, Int) => Bool;
EncodeWaitPollOK(st, g, msg, ord, t, tmo) ==
    LET e  == PnEncode(msg, ord)
        c  == msg[1]
        r1 == PollFeed(st, e[1], t)
        r2 == PollFeed(r1.st, e[2], t)
        r3 == PollFeed(r2.st, e[3], t)
        r4 == IF e[4] = NoMsg THEN [st |-> r3.st, out |-> <<>>] ELSE PollFeed(r3.st, e[4], t)
        p  == PollPoll(r4.st, c, t + tmo, tmo)
        total == r1.out \o r2.out \o r3.out \o r4.out \o p.out
    IN \/ total = <<msg>>
       \/ Len(total) = 2 /\ total[2] = msg /\ IsEntry7(total[1]) /\ total[1][3] = g.c6 /\ ~g.rep
RtInv == to # Inf => EncodeWaitPollOK(sc[rt[1]], gh[rt[1]], rt, rtOrd, now, to)

\* non-vacuity witnesses: these are NOT invariants; Apalache must refute them from IndInit
NoPendingMsb == \A c \in Chans : ~(sc[c].ph = "VP" /\ sc[c].ismsb)
NoFvc == \A c \in Chans : sc[c].ph # "FVC"

\* an ARBITRARY state satisfying IndInv, built field-wise
IndInit ==
    /\ \E t \in Int : t >= 0 /\ now = t
    /\ \E t \in Int : t >= -1 /\ to = t
    /\ \E fph \in [Chans -> Phases], ffb \in [Chans -> B7], freg \in [Chans -> BOOLEAN], fis \in [Chans -> BOOLEAN],
          fnm \in [Chans -> B7], fnl \in [Chans -> B7], fat \in [Chans -> Int], fb \in [Chans -> B7],
          fvm \in [Chans -> B7], fvl \in [Chans -> B7] :
          sc = [c \in Chans |-> [ph |-> fph[c], fb |-> ffb[c], reg |-> freg[c], ismsb |-> fis[c], nm |-> fnm[c],
                                  nl |-> fnl[c], at |-> fat[c], b |-> fb[c], vm |-> fvm[c], vl |-> fvl[c]]]
    /\ \E gnm \in [Chans -> B7], gnl \in [Chans -> B7], gk \in [Chans -> BOOLEAN], gkm \in [Chans -> BOOLEAN],
          gkl \in [Chans -> BOOLEAN], gp38 \in [Chans -> BOOLEAN], g6 \in [Chans -> B7],
          g6t \in [Chans -> Int], g38 \in [Chans -> B7], g38t \in [Chans -> Int], grep \in [Chans -> BOOLEAN],
          glast \in [Chans -> Lasts], glate \in [Chans -> BOOLEAN], gowe \in [Chans -> BOOLEAN] :
          gh = [c \in Chans |-> [nm |-> gnm[c], nl |-> gnl[c], kind |-> gk[c], km |-> gkm[c], kl |-> gkl[c],
                                  c6 |-> g6[c], c6t |-> g6t[c],
                                  c38 |-> g38[c], c38t |-> g38t[c], p38 |-> gp38[c], rep |-> grep[c], last |-> glast[c],
                                  late38 |-> glate[c], owe |-> gowe[c]]]
    /\ viol = {}
    /\ \E c \in Chans, n \in 0..16383, v \in 0..16383, r \in BOOLEAN, k \in 0..3 :
          rt = IF k = 3 THEN Pn14(c, n, v, r) ELSE Pn7(c, n, v % 128, r, k)
    /\ rtOrd \in {"msb", "lsb"}
    /\ IndInv
===============================================================================
