------------------------------ MODULE MC_Brackets ------------------------------
(***************************************************************************)
(* Soundness of the measured real-clock runs (DESIGN section 13).          *)
(*                                                                         *)
(* The production configuration reads the real clock, which no script can  *)
(* set.  The executor therefore brackets every call with two readings of   *)
(* its own: f0 <= (whatever reading `feed` takes: a) <= f1 and             *)
(* p0 <= (whatever reading `poll` takes: n) <= p1, while time advances     *)
(* arbitrarily between any two steps.  The filter keeps a poll only if the *)
(* brackets CONFIRM its classification against the timeout TO:             *)
(*     late   : p0 - f1 >= TO          early : p1 - f0 < TO                *)
(* This module lets TLC check, for every interleaving of clock ticks with  *)
(* the six readings, that a confirmed classification is the one the        *)
(* scanner itself arrives at (n - a >= TO resp. n - a < TO), and that the  *)
(* unconfirmed zone is exactly where the two could differ.  A scanner that *)
(* reads the clock several times during one call is covered: a and n are   *)
(* ANY readings taken inside the brackets.                                 *)
(***************************************************************************)
EXTENDS Integers

CONSTANTS TO, MaxT

VARIABLES clock, pc, f0, a, f1, p0, n, p1
vars == <<clock, pc, f0, a, f1, p0, n, p1>>

Init == clock = 0 /\ pc = 0 /\ f0 = 0 /\ a = 0 /\ f1 = 0 /\ p0 = 0 /\ n = 0 /\ p1 = 0

Tick == clock < MaxT /\ clock' = clock + 1 /\ UNCHANGED <<pc, f0, a, f1, p0, n, p1>>

Read(k, v) == pc = k /\ pc' = k + 1 /\ v' = clock

FeedBefore  == Read(0, f0) /\ UNCHANGED <<clock, a, f1, p0, n, p1>>
\* the scanner may look at the clock more than once while the value byte arrives; `a` is any of its readings
FeedStamp   == /\ pc \in {1, 2} /\ pc' = 2 /\ a' = clock
               /\ UNCHANGED <<clock, f0, f1, p0, n, p1>>
FeedAfter   == Read(2, f1) /\ UNCHANGED <<clock, f0, a, p0, n, p1>>
PollBefore  == Read(3, p0) /\ UNCHANGED <<clock, f0, a, f1, n, p1>>
PollReading == /\ pc \in {4, 5} /\ pc' = 5 /\ n' = clock
               /\ UNCHANGED <<clock, f0, a, f1, p0, p1>>
PollAfter   == Read(5, p1) /\ UNCHANGED <<clock, f0, a, f1, p0, n>>

Next == Tick \/ FeedBefore \/ FeedStamp \/ FeedAfter \/ PollBefore \/ PollReading \/ PollAfter
Spec == Init /\ [][Next]_vars

Done == pc = 6
ConfirmedLate  == p0 - f1 >= TO
ConfirmedEarly == p1 - f0 < TO

\* what the filter relies on
Sound == Done => /\ (ConfirmedLate  => n - a >= TO)
                 /\ (ConfirmedEarly => n - a < TO)
                 /\ ~(ConfirmedLate /\ ConfirmedEarly)

\* non-vacuity: each of these is an invariant that TLC must REFUTE (run separately by the check)
NeverConfirmedLate  == ~(Done /\ ConfirmedLate)
NeverConfirmedEarly == ~(Done /\ ConfirmedEarly)
\* in the unconfirmed zone both outcomes are possible, so discarding (rather than guessing) is necessary
NeverUnsettledLate  == ~(Done /\ ~ConfirmedLate /\ ~ConfirmedEarly /\ n - a >= TO)
NeverUnsettledEarly == ~(Done /\ ~ConfirmedLate /\ ~ConfirmedEarly /\ n - a < TO)
================================================================================
