-------------------------------- MODULE MC_Cc14 --------------------------------
(***************************************************************************)
(* Design-level model of ControlChange14BitMessageScanner on one channel:  *)
(* machine x C08-ghost, explored to a fixpoint over an abstract alphabet.   *)
(* Properties are ACTION properties so that TLC evaluates them on every     *)
(* transition (also those into already-seen states) although `ev` is hidden *)
(* by the VIEW.                                                             *)
(***************************************************************************)
EXTENDS Cc14Scanner, TLC, Json

CONSTANTS V,      \* abstract value bytes
          Cns,    \* controller numbers fed
          RtVals  \* 14-bit values used in the round-trip invariant

VARIABLES st, g, ev
vars == <<st, g, ev>>

OtherStatuses == {128, 144, 160, 192, 208, 224} \cup (240..255)
Others == {<<s, d1, 127>> : s \in OtherStatuses, d1 \in {1, 33}}
Inputs == {CC(0, n, v) : n \in Cns, v \in V} \cup Others

Init == st = Cc14Init /\ g = Cc14GhostInit /\ ev = [op |-> "init", out |-> <<>>]

FeedA(m) ==
    LET c == MsgChannel(m)
        r == IF c = None THEN [st |-> st, out |-> <<>>] ELSE Cc14Feed(st, m)
    IN /\ st' = r.st
       /\ g'  = IF c = None THEN g ELSE Cc14GhostFeed(g, m)
       /\ ev' = [op |-> "feed", m |-> m, out |-> r.out]

ResetA == /\ st' = Cc14Reset(st) /\ g' = Cc14GhostReset(g)
          /\ ev' = [op |-> "reset", out |-> <<>>]

Next == (\E m \in Inputs : FeedA(m)) \/ ResetA
Spec == Init /\ [][Next]_vars

(******************************* properties ********************************)
\* C08: the machine reports exactly what the property text justifies
P_C08 == [][ev'.op = "feed" =>
              ev'.out = (IF MsgChannel(ev'.m) = None THEN <<>> ELSE Cc14Expected(g, ev'.m))]_vars
\* C16 / C15: non-contributing and channel-less messages are transparent
P_C16 == [][(ev'.op = "feed" /\ (MsgChannel(ev'.m) = None \/ Cc14NonContributing(ev'.m)))
              => (st' = st /\ ev'.out = <<>>)]_vars
\* C17: reset establishes the initial state
P_C17 == [][ev'.op = "reset" => st' = Cc14Init]_vars
\* C07 (scanner half): in EVERY reachable state the encoding of any message is inverted
I_C07 == \A n \in 0..31 : \A v \in RtVals : Cc14RoundTripOK(st, <<0, n, v>>)
\* the ghost is an exact abstraction of the machine state (used by the edge argument)
I_Ghost == /\ (g = <<>>) <=> (st.cn = None)
           /\ (st.cn = None) <=> (st.v = None)
           /\ g # <<>> => (g[1] = st.cn /\ g[2] = st.v)
TypeOK == /\ st.cn \in {None} \cup (0..31) /\ st.v \in {None} \cup (0..127)

View == <<st, g>>
EdgeView == st
Emit == PrintT(<<"EDGE", ToJson([p |-> st, q |-> st', e |-> ev'])>>)
================================================================================
