-------------------------------- MODULE MC_Ints --------------------------------
(***************************************************************************)
(* Sanity theorems about the MidiInts operators, evaluated by TLC:          *)
(* printing then parsing is the identity, numerals are recognised, the      *)
(* saturating value is exact below the saturation point.                    *)
(***************************************************************************)
EXTENDS MidiInts, TLC

VARIABLE T
Init == T \in 0..5
Next == UNCHANGED T
Spec == Init /\ [][Next]_T

Inv == /\ \A v \in 0..MaxOf(T) : ParseOk(T, DigitsOf(v)) /\ NumeralValue(DigitsOf(v)) = v
       /\ \A v \in 0..MaxOf(T) : ParseOk(T, <<43>> \o DigitsOf(v)) /\ ParseOk(T, <<48, 48>> \o DigitsOf(v))
       /\ ~ParseOk(T, DigitsOf(MaxOf(T) + 1)) /\ ~ParseOk(T, <<>>) /\ ~ParseOk(T, <<43>>)
       /\ ~ParseOk(T, <<45, 48>>) /\ ~ParseOk(T, <<49, 32>>) /\ ~ParseOk(T, <<43, 43, 49>>)
       /\ ~ParseOk(T, <<57, 57, 57, 57, 57, 57, 57, 57, 57, 57, 57, 57>>)
       /\ \A v \in {0, 9, 10, 99, 100, 16383} : Len(DigitsOf(v)) = (IF v < 10 THEN 1 ELSE IF v < 100 THEN 2 ELSE IF v < 1000 THEN 3 ELSE 5)
================================================================================
