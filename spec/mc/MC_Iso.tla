--------------------------------- MODULE MC_Iso ---------------------------------
(***************************************************************************)
(* C15 at design level: the 16-way (here: N-way) product of per-channel    *)
(* machines behind the channel dispatch of `feed` / `poll`.  Explored to a  *)
(* fixpoint for two channels of each scanner kind over a reduced alphabet.  *)
(***************************************************************************)
EXTENDS Cc14Scanner, PnScanner, PollingScanner, TLC

CONSTANTS Kind,    \* "cc14" | "pn" | "poll"
          Chans,   \* the channels of the product
          V, Cns,  \* value bytes, controller numbers
          TOc, CAP

TO == IF TOc = 999 THEN Inf ELSE TOc
Min(a, b) == IF a < b THEN a ELSE b

VARIABLES sc, now, ev
vars == <<sc, now, ev>>

InitOf == CASE Kind = "cc14" -> Cc14Init [] Kind = "pn" -> PnInit [] OTHER -> PollInit
StepOf(st, m) == CASE Kind = "cc14" -> Cc14Feed(st, m) [] Kind = "pn" -> PnFeed(st, m)
                   [] OTHER -> PollFeed(st, m, now)

Init == sc = [c \in Chans |-> InitOf] /\ now = 0 /\ ev = [op |-> "init", out |-> <<>>, c |-> None]

\* the dispatch of the public `feed`: messages without channel return early
FeedA(m) ==
    LET c == MsgChannel(m) IN
    IF c = None
    THEN /\ UNCHANGED <<sc, now>> /\ ev' = [op |-> "feed", out |-> <<>>, c |-> None]
    ELSE LET r == StepOf(sc[c], m) IN
         /\ sc' = [sc EXCEPT ![c] = r.st] /\ UNCHANGED now
         /\ ev' = [op |-> "feed", out |-> r.out, c |-> c]

PollA(c) == /\ Kind = "poll"
            /\ LET r == PollPoll(sc[c], c, now, TO) IN
               /\ sc' = [sc EXCEPT ![c] = r.st] /\ UNCHANGED now
               /\ ev' = [op |-> "poll", out |-> r.out, c |-> c]

TickA == /\ Kind = "poll" /\ now' = now + 1 /\ UNCHANGED sc
         /\ ev' = [op |-> "tick", out |-> <<>>, c |-> None]

Msgs == {CC(c, n, v) : c \in Chans, n \in Cns, v \in V}
        \cup {<<144 + c, 6, 1>> : c \in Chans} \cup {<<248, 6, 6>>, <<242, 98, 38>>}

Next == (\E m \in Msgs : FeedA(m)) \/ (\E c \in Chans : PollA(c)) \/ TickA
Spec == Init /\ [][Next]_vars

\* an input on channel a leaves every other channel unchanged and reports channel a;
\* a message without channel changes nothing and reports nothing
P_C15 == [][/\ \A b \in Chans : b # ev'.c => sc'[b] = sc[b]
            /\ \A i \in 1..Len(ev'.out) : ev'.out[i][1] = ev'.c
            /\ (ev'.c = None /\ ev'.op = "feed") => (sc' = sc /\ ev'.out = <<>>)]_vars

AgeSt(m) == IF Kind = "poll" /\ m.ph = "VP" THEN [m EXCEPT !.at = Min(now - m.at, CAP)] ELSE m
View == [c \in Chans |-> AgeSt(sc[c])]
================================================================================
