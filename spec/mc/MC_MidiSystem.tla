---------------------------- MODULE MC_MidiSystem ----------------------------
(***************************************************************************)
(* End-to-end composition (growth beyond the listed properties):           *)
(*                                                                          *)
(*   high-level senders --> wire (FIFO of short messages) --> 3 scanners    *)
(*                                                                          *)
(* Senders put the ENCODINGS of 14-bit CC and (N)RPN messages on the wire   *)
(* (both byte orders), a third party inserts System Real Time messages at   *)
(* ANY position of the wire - also between the messages of one encoding -,  *)
(* channels are interleaved.  The receiver pops one message at a time and   *)
(* feeds it to a ControlChange14BitMessageScanner, a                        *)
(* ParameterNumberMessageScanner and a PollingParameterNumberMessageScanner *)
(* and polls the latter at arbitrary times.                                 *)
(*                                                                          *)
(* Environment assumption (the reason the polling scanner has a timeout):   *)
(* the messages of one encoding arrive within the timeout, i.e. no time     *)
(* passes while an encoding is partially delivered.                         *)
(*                                                                          *)
(* Safety: what each scanner has reported is always a prefix of what was    *)
(* sent on that channel (nothing fabricated, duplicated, reordered), and    *)
(* everything once the wire has drained (and the pending value was polled). *)
(* Liveness (fair delivery, time and polls): every message sent is          *)
(* eventually reported by the polling scanner.                              *)
(***************************************************************************)
EXTENDS Cc14Scanner, PnScanner, PollingScanner, TLC, Json

CONSTANTS Chans,     \* channels in use
          V7,        \* 7-bit values
          V14,       \* 14-bit values and parameter numbers
          Cns14,     \* MSB controller numbers of the 14-bit CC sender (not 6: that is data entry)
          TOc, CAP,  \* timeout of the polling scanner (999 = Inf), age cap
          MaxSend,   \* bound on high-level sends
          MaxRt,     \* bound on inserted real-time messages
          Orders,    \* byte orders the (N)RPN sender uses, subset of {"msb", "lsb"}
          Emitting,  \* TRUE: generation mode (`-simulate`): the receiver-side history is kept and printed
          MaxN       \* generation mode: number of receiver-side events per printed behaviour

TO == IF TOc = 999 THEN Inf ELSE TOc

VARIABLES wire,      \* sequence of [m |-> message, k |-> index within its encoding (0 for real time)]
          s14, spn, spoll,            \* per channel scanner states
          sent14, sentPn,             \* per channel: messages handed to the senders
          rep14, repPn, repPoll,      \* per channel: messages reported so far
          now, nsend, nrt,
          hist       \* generation mode only: what the receiver did and what each scanner answered
vars == <<wire, s14, spn, spoll, sent14, sentPn, rep14, repPn, repPoll, now, nsend, nrt, hist>>

Hist(e) == IF Emitting THEN Append(hist, e) ELSE hist

Init == /\ wire = <<>> /\ now = 0 /\ nsend = 0 /\ nrt = 0
        /\ s14 = [c \in Chans |-> Cc14Init] /\ spn = [c \in Chans |-> PnInit]
        /\ spoll = [c \in Chans |-> PollInit]
        /\ sent14 = [c \in Chans |-> <<>>] /\ sentPn = [c \in Chans |-> <<>>]
        /\ rep14 = [c \in Chans |-> <<>>] /\ repPn = [c \in Chans |-> <<>>]
        /\ repPoll = [c \in Chans |-> <<>>] /\ hist = <<>>

Tagged(ms) == [i \in 1..Len(ms) |-> [m |-> ms[i], k |-> i]]

Msgs14 == {<<c, n, v>> : c \in Chans, n \in Cns14, v \in V14}
MsgsPn == {<<c, n, v, r, 0, dt>> : c \in Chans, n \in V14, v \in V7, r \in {0, 1}, dt \in {0, 1, 2}}
          \cup {<<c, n, v, r, 1, 0>> : c \in Chans, n \in V14, v \in V14, r \in {0, 1}}

SendCc14(msg) ==
    /\ nsend < MaxSend /\ nsend' = nsend + 1
    /\ wire' = wire \o Tagged(Cc14Encode(msg))
    /\ sent14' = [sent14 EXCEPT ![msg[1]] = Append(@, msg)]
    /\ UNCHANGED <<s14, spn, spoll, sentPn, rep14, repPn, repPoll, now, nrt, hist>>

SendPn(msg, ord) ==
    /\ nsend < MaxSend /\ nsend' = nsend + 1
    /\ wire' = wire \o Tagged(PnEncodeSeq(msg, ord))
    /\ sentPn' = [sentPn EXCEPT ![msg[1]] = Append(@, msg)]
    /\ UNCHANGED <<s14, spn, spoll, sent14, rep14, repPn, repPoll, now, nrt, hist>>

\* a System Real Time message may appear anywhere, also inside an encoding
InsertRt(i, s) ==
    /\ nrt < MaxRt /\ nrt' = nrt + 1
    /\ wire' = SubSeq(wire, 1, i) \o <<[m |-> <<s, 0, 0>>, k |-> 0]>> \o SubSeq(wire, i + 1, Len(wire))
    /\ UNCHANGED <<s14, spn, spoll, sent14, sentPn, rep14, repPn, repPoll, now, nsend, hist>>

Deliver ==
    /\ wire # <<>>
    /\ LET m == Head(wire).m  c == MsgChannel(m) IN
       /\ wire' = Tail(wire)
       /\ IF c = None
          THEN /\ UNCHANGED <<s14, spn, spoll, rep14, repPn, repPoll>>
               /\ hist' = Hist([op |-> "feed", m |-> m, o14 |-> <<>>, opn |-> <<>>, opoll |-> <<>>])
          ELSE LET a == Cc14Feed(s14[c], m)  b == PnFeed(spn[c], m)  p == PollFeed(spoll[c], m, now) IN
               /\ s14' = [s14 EXCEPT ![c] = a.st]     /\ rep14' = [rep14 EXCEPT ![c] = @ \o a.out]
               /\ spn' = [spn EXCEPT ![c] = b.st]     /\ repPn' = [repPn EXCEPT ![c] = @ \o b.out]
               /\ spoll' = [spoll EXCEPT ![c] = p.st] /\ repPoll' = [repPoll EXCEPT ![c] = @ \o p.out]
               /\ hist' = Hist([op |-> "feed", m |-> m, o14 |-> a.out, opn |-> b.out, opoll |-> p.out])
    /\ UNCHANGED <<sent14, sentPn, now, nsend, nrt>>

\* the first message of the wire that belongs to an encoding continues a partially delivered one
RECURSIVE FirstEnc(_)
FirstEnc(w) == IF w = <<>> THEN [m |-> <<0, 0, 0>>, k |-> 1] ELSE IF Head(w).k = 0 THEN FirstEnc(Tail(w)) ELSE Head(w)
MidBurst == FirstEnc(wire).k > 1
BurstChan == IF MidBurst THEN MsgChannel(FirstEnc(wire).m) ELSE None
Pending(c) == spoll[c].ph = "VP"

Poll(c) ==
    LET p == PollPoll(spoll[c], c, now, TO) IN
    \* environment assumption, as in MC_Sender: inside an encoding only early polls
    /\ (c = BurstChan) => ~(Pending(c) /\ Late(spoll[c].at, now, TO))
    /\ spoll' = [spoll EXCEPT ![c] = p.st] /\ repPoll' = [repPoll EXCEPT ![c] = @ \o p.out]
    /\ hist' = Hist([op |-> "poll", ch |-> c, opoll |-> p.out])
    /\ UNCHANGED <<wire, s14, spn, sent14, sentPn, rep14, repPn, now, nsend, nrt>>

\* time passes only between encodings (environment assumption) and only while it matters
Tick == /\ ~MidBurst
        /\ \E c \in Chans : Pending(c) /\ now - spoll[c].at < CAP
        /\ now' = now + 1
        /\ hist' = Hist([op |-> "tick", dt |-> 1])
        /\ UNCHANGED <<wire, s14, spn, spoll, sent14, sentPn, rep14, repPn, repPoll, nsend, nrt>>

Next == \/ \E msg \in Msgs14 : SendCc14(msg)
        \/ \E msg \in MsgsPn, ord \in Orders : SendPn(msg, ord)
        \/ \E i \in 0..Len(wire), s \in {248, 254} : InsertRt(i, s)
        \/ Deliver \/ Tick \/ \E c \in Chans : Poll(c)

(* Generation mode (`tlc -simulate`): the same actions with the FULL value domain - 16 channels, every  *)
(* parameter number and value, every MSB controller number except 6 -, one random draw per action kind *)
(* (the reference to nsend keeps TLC from caching the draw as a constant).  A behaviour is printed as  *)
(* the receiver-side history: every message delivered with what EACH of the three scanners reports    *)
(* for it, every poll, every time step.  It is replayed into three real scanners fed the same stream.  *)
Pick(S) == {RandomElement(IF nsend >= 0 THEN S ELSE {})}
GenNext == \/ \E c \in Pick(Chans), n \in Pick((0..31) \ {6}), v \in Pick(0..16383) : SendCc14(<<c, n, v>>)
           \/ \E c \in Pick(Chans), n \in Pick(0..16383), v \in Pick(0..127), r \in Pick({0, 1}), dt \in Pick({0, 1, 2}),
                 ord \in Pick(Orders) : SendPn(<<c, n, v, r, 0, dt>>, ord)
           \/ \E c \in Pick(Chans), n \in Pick(0..16383), v \in Pick(0..16383), r \in Pick({0, 1}), ord \in Pick(Orders) :
                 SendPn(<<c, n, v, r, 1, 0>>, ord)
           \/ \E i \in Pick(0..Len(wire)), s \in Pick({248, 250, 252, 254, 255}) : InsertRt(i, s)
           \/ Deliver \/ Deliver \/ Tick \/ \E c \in Pick(Chans) : Poll(c)
           \/ (\E c \in Chans : Pending(c)) /\ (\E c \in Pick({x \in Chans : Pending(x)}) : Poll(c))
GenSpec == Init /\ [][GenNext]_vars
Dump == (Emitting /\ Len(hist) = MaxN) => PrintT(<<"SYSB", ToJson(hist)>>)

Fairness == WF_vars(Deliver) /\ WF_vars(Tick) /\ \A c \in Chans : WF_vars(Poll(c))
Spec == Init /\ [][Next]_vars /\ Fairness

(********************************* safety **********************************)
IsPrefix(a, b) == Len(a) <= Len(b) /\ SubSeq(b, 1, Len(a)) = a
RECURSIVE Filter14(_)
Filter14(rs) == IF rs = <<>> THEN <<>>
                ELSE (IF Head(rs)[2] \in Cns14 THEN <<Head(rs)>> ELSE <<>>) \o Filter14(Tail(rs))
Drained == wire = <<>>

\* the 14-bit CC scanner reports the sent messages, each once, in order, unchanged
I_E2E_Cc14 == \A c \in Chans :
    /\ IsPrefix(Filter14(rep14[c]), sent14[c])
    /\ Drained => Filter14(rep14[c]) = sent14[c]
\* the polling scanner reports exactly the (N)RPN messages sent, for both byte orders
I_E2E_Poll == \A c \in Chans :
    /\ IsPrefix(repPoll[c], sentPn[c])
    /\ (Drained /\ ~Pending(c)) => repPoll[c] = sentPn[c]
\* the non-polling scanner does so for the byte order it documents
I_E2E_Pn == Orders = {"lsb"} => \A c \in Chans :
    /\ IsPrefix(repPn[c], sentPn[c])
    /\ Drained => repPn[c] = sentPn[c]

(******************************** liveness *********************************)
\* with fair delivery, fair time and fair polling the k-th (N)RPN message sent on a channel is
\* eventually reported by the polling scanner (for every finite timeout)
L_Reported == TO # Inf => \A c \in Chans : \A k \in 1..MaxSend :
                 (Len(sentPn[c]) >= k) ~> (Len(repPoll[c]) >= k)
\* a pending data entry MSB does not stay pending forever
L_Pending == TO # Inf => \A c \in Chans : (Pending(c) /\ spoll[c].ismsb) ~> ~(Pending(c) /\ spoll[c].ismsb)
================================================================================
