--------------------------------- MODULE MC_Pn ---------------------------------
(***************************************************************************)
(* Design-level model of ParameterNumberMessageScanner on one channel:     *)
(* machine x C11-ghost to a fixpoint over an abstract alphabet.             *)
(***************************************************************************)
EXTENDS PnRun, TLC, Json

CONSTANTS V,        \* abstract value bytes
          ExtraCns  \* non-contributing controller numbers fed as well

VARIABLES st, g, ev
vars == <<st, g, ev>>

OtherStatuses == {128, 144, 160, 192, 208, 224} \cup (240..255)
Others == {<<s, d1, 127>> : s \in OtherStatuses, d1 \in {6, 98}}
Inputs == {CC(0, n, v) : n \in PnControllers \cup ExtraCns, v \in V} \cup Others

Init == st = PnInit /\ g = PnGhostInit /\ ev = [op |-> "init", out |-> <<>>]

FeedA(m) ==
    LET c == MsgChannel(m)
        r == IF c = None THEN [st |-> st, out |-> <<>>] ELSE PnFeed(st, m)
    IN /\ st' = r.st
       /\ g'  = IF c = None THEN g ELSE PnGhostFeed(g, m)
       /\ ev' = [op |-> "feed", m |-> m, out |-> r.out]

ResetA == /\ st' = PnReset(st) /\ g' = PnGhostReset(g)
          /\ ev' = [op |-> "reset", out |-> <<>>]

Next == (\E m \in Inputs : FeedA(m)) \/ ResetA
Spec == Init /\ [][Next]_vars

P_C11 == [][ev'.op = "feed" =>
              ev'.out = (IF MsgChannel(ev'.m) = None THEN <<>> ELSE PnExpected(g, ev'.m))]_vars
P_C16 == [][(ev'.op = "feed" /\ (MsgChannel(ev'.m) = None \/ PnNonContributing(ev'.m)))
              => (st' = st /\ ev'.out = <<>>)]_vars
P_C17 == [][ev'.op = "reset" => st' = PnInit]_vars

\* abstract messages for the round-trip invariants
Nums  == {Join(a, b) : a \in V, b \in V}
Msgs7 == {<<0, n, v, r, 0, dt>> : n \in Nums, v \in V, r \in {0, 1}, dt \in {0, 1, 2}}
Msgs14 == {<<0, n, Join(a, b), r, 1, 0>> : n \in Nums, a \in V, b \in V, r \in {0, 1}}

\* C10: in EVERY reachable state the documented encodings are inverted ...
I_C10 == \A msg \in Msgs7 \cup Msgs14 : PnRoundTripOK(st, msg)
\* ... and so are the running forms after one selection (three repetitions)
RunningOK(msg, m2, m3) ==
    LET e  == PnEncodeSeq(msg, "lsb")
        vb(x) == SubSeq(PnEncodeSeq(x, "lsb"), 3, Len(PnEncodeSeq(x, "lsb")))
        seq == e \o vb(m2) \o vb(m3)
        outs == PnRun(st, seq)
        k1 == Len(e)  k2 == k1 + Len(vb(m2))  k3 == k2 + Len(vb(m3))
    IN /\ outs[k1] = <<msg>> /\ outs[k2] = <<m2>> /\ outs[k3] = <<m3>>
       /\ \A i \in 1..k3 : i \notin {k1, k2, k3} => outs[i] = <<>>
SameSel(a, b) == a[2] = b[2] /\ a[4] = b[4]
\* running forms: [x,y,MSB,MSB,...] (7-bit / inc / dec mixed) and [x,y,LSB,MSB,LSB,MSB,...]
I_C10run ==
    /\ \A a \in Msgs7 : \A b \in {x \in Msgs7 : SameSel(a, x)} :
          \A c \in {x \in Msgs7 : SameSel(a, x) /\ x[3] = a[3]} : RunningOK(a, b, c)
    /\ \A a \in Msgs14 : \A b \in {x \in Msgs14 : SameSel(a, x)} :
          \A c \in {x \in Msgs14 : SameSel(a, x) /\ x[3] = a[3]} : RunningOK(a, b, c)

I_Ghost == /\ g.nm = st.nm /\ g.nl = st.nl /\ g.v38 = st.vl
           /\ (g.nm # None \/ g.nl # None) => g.kind = st.reg

View == <<st, g>>
EdgeView == st
Emit == PrintT(<<"EDGE", ToJson([p |-> st, q |-> st', e |-> ev'])>>)
================================================================================
