------------------------------- MODULE MC_PnMsg -------------------------------
(***************************************************************************)
(* Spec-level theorems about the (N)RPN encoder PnEncode, by TLC:          *)
(* well-formedness of the emitted sequence for every abstract message.     *)
(***************************************************************************)
EXTENDS PnScanner, TLC

VARIABLE reg
Init == reg \in {0, 1}
Next == UNCHANGED reg
Spec == Init /\ [][Next]_reg

Vals14 == {0, 1, 127, 128, 129, 8191, 8192, 16255, 16256, 16383}
Msgs == {<<c, n, v, reg, 0, dt>> : c \in {0, 15}, n \in Vals14, v \in {0, 1, 64, 127}, dt \in {0, 1, 2}}
        \cup {<<c, n, v, reg, 1, 0>> : c \in {0, 15}, n \in Vals14, v \in Vals14}

WellFormed(msg, ord) ==
    LET e == PnEncode(msg, ord) IN
    /\ PnValid(msg)
    /\ e[1] = CC(msg[1], IF reg = 1 THEN 101 ELSE 99, Hi(msg[2]))
    /\ e[2] = CC(msg[1], IF reg = 1 THEN 100 ELSE 98, Lo(msg[2]))
    /\ (e[4] # NoMsg) <=> (msg[5] = 1)                       \* exactly the 14-bit messages fill all four slots
    /\ \A i \in 1..4 : e[i] # NoMsg => (IsCC(e[i]) /\ MsgChannel(e[i]) = msg[1] /\ e[i][2] \in PnControllers
                                        /\ e[i][3] \in 0..127)
    /\ msg[5] = 1 => Join(IF ord = "msb" THEN e[3][3] ELSE e[4][3], IF ord = "msb" THEN e[4][3] ELSE e[3][3]) = msg[3]
    /\ msg[5] = 0 => e[3][3] = msg[3]
    \* both byte orders carry the same messages
    /\ {e[i] : i \in 1..4} = {PnEncode(msg, "msb")[i] : i \in 1..4}

Inv == \A msg \in Msgs : WellFormed(msg, "msb") /\ WellFormed(msg, "lsb")
================================================================================
