-------------------------------- MODULE MC_Poll --------------------------------
(***************************************************************************)
(* Design-level model of PollingParameterNumberMessageScanner on one       *)
(* channel: machine x C13/C14-ghost, with explicit time, to a fixpoint.     *)
(* Inputs: every contributing controller in any order (also malformed       *)
(* traffic), other messages, poll, tick, reset.  Time is absolute in the    *)
(* state; the VIEW replaces instants by saturated ages (behaviour depends   *)
(* on time only through `now - t >= TO`), which makes the state space       *)
(* finite.                                                                  *)
(***************************************************************************)
EXTENDS PollRun, PnScanner, TLC, Json

CONSTANTS V,        \* abstract value bytes
          ExtraCns, \* non-contributing controller numbers fed as well
          TOc,      \* timeout: a natural, 999 stands for Inf (cfg files cannot say -1)
          CAP       \* ages saturate here (>= TO)

TO == IF TOc = 999 THEN Inf ELSE TOc

VARIABLES st, g, now, ev
vars == <<st, g, now, ev>>

OtherStatuses == {128, 144, 160, 192, 208, 224} \cup (240..255)
Others == {<<s, d1, 127>> : s \in OtherStatuses, d1 \in {6, 98}}
Inputs == {CC(0, n, v) : n \in PnControllers \cup ExtraCns, v \in V} \cup Others

Min(a, b) == IF a < b THEN a ELSE b

Init == st = PollInit /\ g = PgInit /\ now = 0 /\ ev = [op |-> "init", out |-> <<>>]

FeedA(m) ==
    LET c == MsgChannel(m)
        r == IF c = None THEN [st |-> st, out |-> <<>>] ELSE PollFeed(st, m, now)
    IN /\ st' = r.st
       /\ g'  = IF c = None THEN g ELSE PgFeed(g, m, r.out, now)
       /\ ev' = [op |-> "feed", m |-> m, out |-> r.out]
       /\ UNCHANGED now

PollA == LET r == PollPoll(st, 0, now, TO) IN
         /\ st' = r.st /\ g' = PgPoll(g, r.out, now, TO)
         /\ ev' = [op |-> "poll", out |-> r.out]
         /\ UNCHANGED now

TickA == /\ now' = now + 1 /\ UNCHANGED <<st, g>>
         /\ ev' = [op |-> "tick", dt |-> 1, out |-> <<>>]

ResetA == /\ st' = PollReset(st) /\ g' = PgReset(g) /\ UNCHANGED now
          /\ ev' = [op |-> "reset", out |-> <<>>]

Next == (\E m \in Inputs : FeedA(m)) \/ PollA \/ TickA \/ ResetA
Spec == Init /\ [][Next]_vars

(******************************* properties ********************************)
\* C13 + C14: every clause of the monitor holds on every transition
P_Mon == [][/\ (ev'.op = "feed" /\ MsgChannel(ev'.m) # None)
                  => PollFeedViolations(g, ev'.m, ev'.out, FALSE, now, TO) = {}
            /\ (ev'.op = "feed" /\ MsgChannel(ev'.m) = None) => ev'.out = <<>> /\ st' = st
            /\ ev'.op = "poll" => PollPollViolations(g, 0, ev'.out, now, TO) = {}]_vars
\* C13: a poll before the timeout returns nothing and has no effect
P_C13early == [][(ev'.op = "poll" /\ PollIsEarly(g, now, TO)) => (st' = st /\ ev'.out = <<>>)]_vars
\* C13: the mere passage of time never changes what feed returns
I_C13time == \A m \in Inputs : \A d \in 1..(CAP + 1) :
                MsgChannel(m) # None => PollFeed(st, m, now).out = PollFeed(st, m, now + d).out
P_C16 == [][(ev'.op = "feed" /\ (MsgChannel(ev'.m) = None \/ PnNonContributing(ev'.m)))
              => (st' = st /\ ev'.out = <<>>)]_vars
P_C17 == [][ev'.op = "reset" => st' = PollInit]_vars

\* C12 ("consequently"): from EVERY reachable state, the encoding of any message in either
\* byte order, then waiting for the timeout and polling, reports exactly that message, preceded
\* at most by the flush of a value still pending from earlier traffic.
Nums   == {Join(a, b) : a \in V, b \in V}
Msgs7  == {<<0, n, v, r, 0, dt>> : n \in Nums, v \in V, r \in {0, 1}, dt \in {0, 1, 2}}
Msgs14 == {<<0, n, Join(a, b), r, 1, 0>> : n \in Nums, a \in V, b \in V, r \in {0, 1}}
RECURSIVE Flat(_)
Flat(ss) == IF ss = <<>> THEN <<>> ELSE Head(ss) \o Flat(Tail(ss))
EncodeThenPollOK(msg, ord) ==
    LET e == PnEncodeSeq(msg, ord)
        r == PollRun(st, e, now)
        p == PollPoll(r.st, 0, now + TO, TO)
        total == Flat(r.outs) \o p.out
    IN \/ total = <<msg>>
       \/ Len(total) = 2 /\ total[2] = msg /\ IsEntry7(total[1]) /\ total[1][3] = g.c6 /\ ~g.rep
I_C12enc == TO # Inf => \A msg \in Msgs7 \cup Msgs14 : \A ord \in {"msb", "lsb"} : EncodeThenPollOK(msg, ord)

TypeOK == /\ st.ph \in {"WNC", "WFV", "VP", "FVC"}
          /\ st.ph = "VP" => st.at <= now

(********************************* views ***********************************)
AgeSt(s) == IF s.ph = "VP" THEN [s EXCEPT !.at = Min(now - s.at, CAP)] ELSE s
AgeG(x) == [x EXCEPT !.c6t  = IF x.last = "cc6" THEN Min(now - x.c6t, CAP) ELSE 0,
                     !.c38t = IF x.last = "cc38" THEN Min(now - x.c38t, CAP) ELSE 0]
View == <<AgeSt(st), AgeG(g)>>
EdgeView == AgeSt(st)
AgeStP(s) == IF s.ph = "VP" THEN [s EXCEPT !.at = Min(now' - s.at, CAP)] ELSE s
Emit == PrintT(<<"EDGE", ToJson([p |-> AgeSt(st), q |-> AgeStP(st'), e |-> ev'])>>)
================================================================================
