------------------------------- MODULE MC_Sender -------------------------------
(***************************************************************************)
(* C12.  The documented (N)RPN sequence grammar as an ENVIRONMENT process  *)
(* (a sender that knows what it intends), composed with the polling        *)
(* scanner machine.  Per channel the sender emits                          *)
(*                                                                          *)
(*    Sel Units*      Sel  = x y | y x   (x in {99,101}, y in {98,100})     *)
(*    Units: M (lone MSB) | M L (pair) | L' (further LSB, only directly     *)
(*           after a 14-bit value) | L M (only directly after Sel) |        *)
(*           INC | DEC                                                      *)
(*                                                                          *)
(* interleaved with non-contributing messages, time steps and polls.       *)
(* Inside a pair (after M of `M L`, after L of `L M`) a poll is enabled    *)
(* only while it is early; at unit boundaries polls are unrestricted.       *)
(* Every action carries the reports the sender INTENDS (`exp`).            *)
(*                                                                          *)
(* Used twice: (A) model-checked to a fixpoint on one channel with          *)
(* abstract values: the machine reports exactly `exp` on every step;        *)
(* (G) run under `tlc -simulate` with the full value domain and up to 16    *)
(* channels to GENERATE sentences that are replayed into the real scanner.  *)
(***************************************************************************)
EXTENDS PollingScanner, TLC, Json

CONSTANTS Chans,   \* channels the sender uses
          V,       \* value bytes
          TOc,     \* timeout (999 = Inf)
          CAP,     \* age saturation for the VIEW
          Emitting, \* TRUE: generation mode (history is kept and printed)
          MaxN     \* generation mode: length of the sentences printed

TO == IF TOc = 999 THEN Inf ELSE TOc
Min(a, b) == IF a < b THEN a ELSE b

VARIABLES snd,   \* per channel: the sender's knowledge
          sc,    \* per channel: the scanner machine
          now, ev, n,
          hist   \* generation mode only: the behaviour so far
vars == <<snd, sc, now, ev, n, hist>>

SndInit == [mode |-> "idle0", nm |-> None, nl |-> None, reg |-> FALSE,
            fh |-> "none", o |-> None, t0 |-> 0, rm |-> None, pl |-> None]

Init == /\ snd = [c \in Chans |-> SndInit] /\ sc = [c \in Chans |-> PollInit]
        /\ now = 0 /\ n = 0 /\ ev = [op |-> "init", out |-> <<>>, exp |-> <<>>] /\ hist = <<>>

Boundary(s)    == s.mode \in {"idle0", "afterSel", "units", "afterPair"}
HasSel(s)      == s.mode \in {"afterSel", "units", "afterPair"}
Flush(s, c)    == IF s.o = None THEN <<>> ELSE << Pn7(c, Join(s.nm, s.nl), s.o, s.reg, DtEntry) >>

\* generation mode keeps the behaviour so far
Hist(e) == IF Emitting THEN Append(hist, e) ELSE hist

\* common tail of every feed action
Fed(c, m, s2, exp) ==
    LET r == PollFeed(sc[c], m, now) IN
    /\ sc'  = [sc EXCEPT ![c] = r.st]
    /\ snd' = [snd EXCEPT ![c] = s2]
    /\ ev'  = [op |-> "feed", m |-> m, out |-> r.out, exp |-> exp, n |-> n + 1]
    /\ hist' = Hist(ev')
    /\ n' = n + 1 /\ UNCHANGED now

SelFirst(c, half, reg, v) ==
    LET s == snd[c] IN
    /\ Boundary(s)
    /\ Fed(c, CC(c, IF half = "msb" THEN (IF reg THEN 101 ELSE 99) ELSE (IF reg THEN 100 ELSE 98), v),
           [s EXCEPT !.mode = "selHalf", !.fh = half, !.reg = reg, !.o = None,
                     !.nm = IF half = "msb" THEN v ELSE s.nm,
                     !.nl = IF half = "lsb" THEN v ELSE s.nl],
           \* the flush carries the number and kind selected BEFORE this call
           Flush(s, c))

SelSecond(c, v) ==
    LET s == snd[c]  half == IF s.fh = "msb" THEN "lsb" ELSE "msb" IN
    /\ s.mode = "selHalf"
    /\ Fed(c, CC(c, IF half = "msb" THEN (IF s.reg THEN 101 ELSE 99) ELSE (IF s.reg THEN 100 ELSE 98), v),
           [s EXCEPT !.mode = "afterSel",
                     !.nm = IF half = "msb" THEN v ELSE s.nm,
                     !.nl = IF half = "lsb" THEN v ELSE s.nl],
           <<>>)

LoneM(c, v) ==
    LET s == snd[c] IN
    /\ HasSel(s)
    /\ Fed(c, CC(c, 6, v), [s EXCEPT !.mode = "units", !.o = v, !.t0 = now], Flush(s, c))

PairM(c, v) ==
    LET s == snd[c] IN
    /\ HasSel(s)
    /\ Fed(c, CC(c, 6, v), [s EXCEPT !.mode = "pairM", !.o = None, !.rm = v, !.t0 = now], Flush(s, c))

PairL(c, v) ==
    LET s == snd[c] IN
    /\ s.mode = "pairM"
    /\ Fed(c, CC(c, 38, v), [s EXCEPT !.mode = "afterPair"],
           << Pn14(c, Join(s.nm, s.nl), Join(s.rm, v), s.reg) >>)

FurtherL(c, v) ==
    LET s == snd[c] IN
    /\ s.mode = "afterPair"
    /\ Fed(c, CC(c, 38, v), s, << Pn14(c, Join(s.nm, s.nl), Join(s.rm, v), s.reg) >>)

LmL(c, v) ==
    LET s == snd[c] IN
    /\ s.mode = "afterSel"
    /\ Fed(c, CC(c, 38, v), [s EXCEPT !.mode = "lmL", !.pl = v, !.t0 = now], <<>>)

LmM(c, v) ==
    LET s == snd[c] IN
    /\ s.mode = "lmL"
    /\ Fed(c, CC(c, 6, v), [s EXCEPT !.mode = "afterPair", !.rm = v],
           << Pn14(c, Join(s.nm, s.nl), Join(v, s.pl), s.reg) >>)

IncDec(c, dt, v) ==
    LET s == snd[c] IN
    /\ HasSel(s)
    /\ Fed(c, CC(c, IF dt = DtInc THEN 96 ELSE 97, v), [s EXCEPT !.mode = "units", !.o = None],
           Flush(s, c) \o << Pn7(c, Join(s.nm, s.nl), v, s.reg, dt) >>)

Other(c, m) == Fed(c, m, snd[c], <<>>)

Tick(d) == /\ now' = now + d /\ n' = n + 1 /\ UNCHANGED <<snd, sc>>
           /\ ev' = [op |-> "tick", dt |-> d, out |-> <<>>, exp |-> <<>>, n |-> n + 1]
           /\ hist' = Hist(ev')

PollS(c) ==
    LET s == snd[c]
        inside == s.mode \in {"pairM", "lmL"}
        late == Late(s.t0, now, TO)
        r == PollPoll(sc[c], c, now, TO)
        exp == IF ~inside /\ s.o # None /\ late THEN Flush(s, c) ELSE <<>>
    IN /\ (inside => ~late)
       /\ sc' = [sc EXCEPT ![c] = r.st]
       /\ snd' = [snd EXCEPT ![c] = IF ~inside /\ late THEN [s EXCEPT !.o = None] ELSE s]
       /\ ev' = [op |-> "poll", ch |-> c, out |-> r.out, exp |-> exp, n |-> n + 1]
       /\ hist' = Hist(ev')
       /\ n' = n + 1 /\ UNCHANGED now

\* non-contributing messages: other channel-voice types whose data bytes look like contributing
\* controllers, the neighbours of the contributing controller numbers, bank select, sustain, the
\* channel-mode controllers (all sound off, reset all controllers, all notes off, poly on) with the
\* values that have a meaning of their own, and system messages
OtherMsgs(c) == {<<s, d1, 127>> : s \in {128 + c, 144 + c, 192 + c, 224 + c}, d1 \in {6, 98}}
                \cup {CC(c, k, v) : k \in {5, 7, 37, 39, 95, 102, 0, 32, 64, 120, 121, 123, 127}, v \in {0, 127}}
                \cup {<<248, 6, 0>>, <<242, 98, 38>>, <<255, 6, 6>>, <<240, 99, 6>>, <<254, 38, 6>>}

TickSteps == IF Emitting THEN (IF TO = Inf \/ TO = 0 THEN {0, 1, 2, 3} ELSE {0, 1, TO - 1, TO, TO + 1, 3 * TO})
             ELSE IF TO = Inf \/ TO = 0 THEN {1} ELSE {1, TO}

\* Generation mode draws ONE random value per action kind so that `-simulate` chooses
\* uniformly among action kinds instead of among (kind, value) pairs.
\* (the reference to the variable n keeps TLC from caching the draw as a constant)
Pick(S) == IF Emitting THEN {RandomElement(IF n >= 0 THEN S ELSE {})} ELSE S

Next ==
    \/ \E c \in Chans, v \in Pick(V) :
          \/ \E half \in {"msb", "lsb"}, reg \in BOOLEAN : SelFirst(c, half, reg, v)
          \/ SelSecond(c, v) \/ LoneM(c, v) \/ PairM(c, v) \/ PairL(c, v) \/ FurtherL(c, v)
          \/ LmL(c, v) \/ LmM(c, v) \/ IncDec(c, DtInc, v) \/ IncDec(c, DtDec, v)
    \/ \E c \in Chans : PollS(c) \/ (\E m \in Pick(OtherMsgs(c)) : Other(c, m))
    \/ \E d \in TickSteps : Tick(d)

Spec == Init /\ [][Next]_vars

(******************************* properties ********************************)
\* C12: feed and poll together report exactly the intended messages, each once, in order
P_C12 == [][ev'.out = ev'.exp]_vars

\* the sender's knowledge and the scanner's phase stay in step (used for diagnosis and as the
\* "queue is empty after a late boundary poll" half of the property)
I_Sync == \A c \in Chans :
    LET s == snd[c]  m == sc[c] IN
    /\ (s.o # None) <=> (s.mode = "units" /\ m.ph = "VP" /\ m.ismsb)
    /\ (s.o # None) => (m.b = s.o /\ m.at = s.t0)
    /\ (s.mode = "pairM") => (m.ph = "VP" /\ m.ismsb /\ m.at = s.t0)
    /\ (s.mode = "lmL") => (m.ph = "VP" /\ ~m.ismsb /\ m.at = s.t0)
    /\ (s.mode = "afterPair") => (m.ph = "FVC" /\ m.vm = s.rm)
    /\ (s.mode \in {"afterSel"}) => m.ph = "WFV"
    /\ HasSel(s) => (m.nm = s.nm /\ m.nl = s.nl /\ m.reg = s.reg)

AgeSnd(s) == [s EXCEPT !.t0 = IF s.o # None \/ s.mode \in {"pairM", "lmL"} THEN Min(now - s.t0, CAP) ELSE 0]
AgeSt(m) == IF m.ph = "VP" THEN [m EXCEPT !.at = Min(now - m.at, CAP)] ELSE m
View == [c \in Chans |-> <<AgeSnd(snd[c]), AgeSt(sc[c])>>]
AgeSndP(s) == [s EXCEPT !.t0 = IF s.o # None \/ s.mode \in {"pairM", "lmL"} THEN Min(now' - s.t0, CAP) ELSE 0]
AgeStP(m) == IF m.ph = "VP" THEN [m EXCEPT !.at = Min(now' - m.at, CAP)] ELSE m

\* graph mode (ACTION_CONSTRAINT): every transition of the composed system, for the bounded-exhaustive
\* enumeration of short sentences (all paths of the finite graph up to a number of steps)
EmitEdge == PrintT(<<"EDGE", ToJson([p |-> View, q |-> [c \in Chans |-> <<AgeSndP(snd'[c]), AgeStP(sc'[c])>>], e |-> ev'])>>)

\* generation mode: a behaviour of length MaxN is printed as one JSON array.  Every printed
\* history is a behaviour of this specification, whichever successor the simulator goes on with.
Dump == (Emitting /\ n = MaxN) => PrintT(<<"SENT", ToJson(hist)>>)
================================================================================
