------------------------------ MODULE MC_ShortMsg ------------------------------
(***************************************************************************)
(* Spec-level theorems about the transcribed MIDI 1.0 table, evaluated by  *)
(* TLC on the whole domain: one state per status byte / per variant, the    *)
(* invariant quantifies over the data bytes.                                *)
(***************************************************************************)
EXTENDS ShortMsg, TLC

CONSTANT Full     \* TRUE: all 128 x 128 data bytes; FALSE: boundary x boundary

VARIABLES x,      \* <<"status", s>> or <<"variant", v>> or <<"misc">>
          phase   \* 0 -> 1: the theorems for x are evaluated in the step (so that workers share the load)
vars == <<x, phase>>

B == {0, 1, 2, 7, 8, 15, 16, 31, 32, 33, 63, 64, 95, 96, 101, 102, 119, 120, 121, 126, 127}
D == IF Full THEN 0..127 ELSE B
D14 == IF Full THEN 0..16383 ELSE {0, 1, 127, 128, 129, 8191, 8192, 16255, 16256, 16383}

Init == /\ phase = 0
        /\ \/ \E s \in 128..255 : x = <<"status", s>>
           \/ \E v \in 0..22 : x = <<"variant", v>>
           \/ x = <<"misc", 0>>

ValuesOfVariant(v) ==
    CASE v \in {0, 1, 2, 3} -> {<<v, c, a, b>> : c \in 0..15, a \in D, b \in D}
      [] v \in {4, 5}       -> {<<v, c, a, 0>> : c \in 0..15, a \in 0..127}
      [] v = 6              -> {<<v, c, a, 0>> : c \in 0..15, a \in D14}
      [] v = 8              -> {<<8, f[1], f[2], f[3]>> : f \in QfFrames}
      [] v = 9              -> {<<9, a, 0, 0>> : a \in D14}
      [] v = 10             -> {<<10, a, 0, 0>> : a \in 0..127}
      [] OTHER              -> {<<v, 0, 0, 0>>}

Holds ==
    CASE x[1] = "status"  -> \A d1 \in D : \A d2 \in D : ThmTriple(x[2], d1, d2)
      [] x[1] = "variant" -> \A y \in ValuesOfVariant(x[2]) : ThmStructuredValue(y)
      [] OTHER -> /\ ThmQf /\ ThmJoin
                  \* the 23 types partition the valid status bytes
                  /\ \A s \in 128..255 : TypeOf(s) \in TypeBytes
                  /\ \A t \in TypeBytes : TypeOf(t) = t
                  \* every enum value is hit by some byte triple (so enumerating triples enumerates the enum)
                  /\ \A v \in 0..22 : \E s \in TypeBytes : Structured(s, 0, 0)[1] = v

Next == /\ phase = 0 /\ x' = x
        /\ phase' = IF Holds THEN 1 ELSE 2
Spec == Init /\ [][Next]_vars
Inv == phase # 2
================================================================================
