----------------------------- MODULE BracketsLemma -----------------------------
(***************************************************************************)
(* The arithmetic core of MC_Brackets for UNBOUNDED time (TLAPS, SMT):     *)
(* readings f0 <= a <= f1 (harness before, scanner, harness after the      *)
(* feed) and p0 <= n <= p1 (the same around the poll) on a clock that      *)
(* never runs backwards.  A class confirmed by the harness' readings is    *)
(* the class the scanner computes from its own readings.                   *)
(***************************************************************************)
EXTENDS Integers, TLAPS

THEOREM ConfirmedClassIsTheScannersClass ==
    ASSUME NEW f0 \in Int, NEW a \in Int, NEW f1 \in Int,
           NEW p0 \in Int, NEW n \in Int, NEW p1 \in Int, NEW TO \in Int,
           f0 <= a, a <= f1, p0 <= n, n <= p1
    PROVE  /\ (p0 - f1 >= TO) => (n - a >= TO)
           /\ (p1 - f0 <  TO) => (n - a <  TO)
           /\ ~((p0 - f1 >= TO) /\ (p1 - f0 < TO))
  BY SMT
================================================================================
