#!/usr/bin/env python3
"""Builds the 'which check catches which seeded change' table of DESIGN.md from campaign logs."""
import json, os, re, sys

VERIF = os.path.dirname(os.path.dirname(os.path.abspath(__file__)))


def main():
    res = {}
    for log in sys.argv[1:]:
        for line in open(log):
            m = re.match(r"^(\S+?)(?:@(\S+))?\s+(C\d\d)\s+(\S+)\s+(\d+)s\s*(.*)$", line)
            if not m:
                continue
            label, _, prop, verdict, secs, detail = m.groups()
            label = label.split("@")[0]
            if re.match(r"^C\d\d-m\d+$", label) is None:
                mm = re.match(r"^(C\d\d)-(m\d+)", label)
                label = "%s-%s" % (mm.group(1), mm.group(2)) if mm else label
            how = ""
            d = re.search(r"\(clause ([^,]+), driver ([^,]+),", detail)
            if d:
                how = "%s / %s" % (d.group(2), d.group(1))
            res[(label, prop)] = (verdict, how)
    rows = []
    for (label, prop), (verdict, how) in sorted(res.items()):
        meta = os.path.join(VERIF, "seeded", label, "notes.md")
        what = ""
        if os.path.exists(meta):
            txt = open(meta).read().strip().splitlines()
            what = next((l.strip("# *-").strip() for l in txt if l.strip() and not l.startswith("```")), "")[:110]
        rows.append("| `%s` | %s | %s | %s | %s |" % (label, prop, verdict, how.replace("|", "/"), what.replace("|", "/")))
    print("| seeded change | check | result | first reporting driver / clause | what it is |")
    print("|---|---|---|---|---|")
    print("\n".join(rows))
    n = len(res)
    c = sum(1 for v in res.values() if v[0] == "caught")
    print("\n%d of %d caught." % (c, n))


if __name__ == "__main__":
    main()
