#!/usr/bin/env python3
"""Confirms 'permitted variant' changes (false-alarm probes) written by independent sub-agents.

For every $PV_SRC/<area>/v<i>/ (default /tmp/pv/out): in a scratch copy of /repo
  1. the witness FAILS (or does not compile) on the unchanged tree,
  2. the patch applies; the crate builds in the three configurations; the existing suite passes,
  3. the witness passes with the change (behaviour really differs).
Then it is kept as /verif/neutral/<area>-v<i>/{patch.diff, witness.rs, notes.md, meta.json}."""
import json, os, shutil, subprocess, sys, concurrent.futures as cf

SRC = os.environ.get("PV_SRC", "/tmp/pv/out")
DST = "/verif/neutral"


def sh(cmd, cwd, env=None, timeout=900):
    e = dict(os.environ, CARGO_NET_OFFLINE="true")
    if env:
        e.update(env)
    p = subprocess.run(cmd, cwd=cwd, env=e, stdout=subprocess.PIPE, stderr=subprocess.STDOUT, text=True, timeout=timeout)
    return p.returncode, p.stdout


def confirm(area, v):
    d = os.path.join(SRC, area, v)
    patch, wit = os.path.join(d, "patch.diff"), os.path.join(d, "witness.rs")
    if not (os.path.exists(patch) and os.path.exists(wit)):
        return area, v, "incomplete", {}
    root = "/tmp/confirm/pv-%s-%s" % (area, v)
    shutil.rmtree(root, ignore_errors=True)
    os.makedirs(root)
    repo = os.path.join(root, "repo")
    try:
        subprocess.run(["rsync", "-a", "--exclude", "target", "--exclude", ".git", "/repo/", repo + "/"], check=True)
        wtxt = open(wit).read()
        feats = ["--features", "serde,serde_repr"] if "serde" in wtxt else []
        env = {"CARGO_TARGET_DIR": os.path.join(root, "target")}
        if "verif_hooks" in wtxt:
            env["RUSTFLAGS"] = "--cfg helgoboss_midi_verif"
        shutil.copy(wit, os.path.join(repo, "tests", "witness.rs"))
        rc0, out0 = sh(["cargo", "test", "--offline", "--test", "witness"] + feats, repo, env)
        os.remove(os.path.join(repo, "tests", "witness.rs"))
        r = subprocess.run(["patch", "-p1", "-d", repo, "-i", patch, "--no-backup-if-mismatch"], capture_output=True, text=True)
        if r.returncode != 0:
            return area, v, "patch-does-not-apply", {"detail": (r.stdout + r.stderr)[-300:]}
        base = {"CARGO_TARGET_DIR": os.path.join(root, "target")}
        rc1, out1 = sh(["cargo", "test", "--offline"], repo, base)
        rcb1, ob1 = sh(["cargo", "build", "--offline", "--no-default-features"], repo, base)
        rcb2, ob2 = sh(["cargo", "build", "--offline", "--features", "serde,serde_repr"], repo, base)
        shutil.copy(wit, os.path.join(repo, "tests", "witness.rs"))
        rc2, out2 = sh(["cargo", "test", "--offline", "--test", "witness"] + feats, repo, env)
        res = {"witness_fails_without_change": rc0 != 0, "suite_passes_with_change": rc1 == 0,
               "builds_nostd": rcb1 == 0, "builds_serde": rcb2 == 0, "witness_passes_with_change": rc2 == 0}
        ok = all(res.values())
        if ok:
            out = os.path.join(DST, "%s-%s" % (area, v))
            os.makedirs(out, exist_ok=True)
            for f in ("witness.rs", "notes.md", "patch.diff"):
                if os.path.exists(os.path.join(d, f)):
                    shutil.copy(os.path.join(d, f), out)
            notes = open(os.path.join(d, "notes.md")).read() if os.path.exists(os.path.join(d, "notes.md")) else ""
            json.dump({"area": area, "id": "%s-%s" % (area, v), "kind": "permitted variant: observable behaviour differs, all 19 properties argued to hold",
                       "origin": "independent sub-agent given only the 19 property texts and a scratch worktree",
                       "title": notes.strip().splitlines()[0] if notes.strip() else "", "confirmed": res},
                      open(os.path.join(out, "meta.json"), "w"), indent=1)
        else:
            res["tail"] = (out1 if rc1 else ob1 if rcb1 else ob2 if rcb2 else out2)[-600:]
        return area, v, "confirmed" if ok else "not-confirmed", res if not ok else {}
    finally:
        shutil.rmtree(root, ignore_errors=True)


def main():
    items = []
    for area in sorted(os.listdir(SRC)):
        p = os.path.join(SRC, area)
        if os.path.isdir(p):
            for v in sorted(os.listdir(p)):
                if os.path.isdir(os.path.join(p, v)):
                    items.append((area, v))
    if len(sys.argv) > 1:
        items = [i for i in items if i[0] in sys.argv[1:] or "%s-%s" % i in sys.argv[1:]]
    with cf.ThreadPoolExecutor(3) as ex:
        for area, v, verdict, detail in ex.map(lambda x: confirm(*x), items):
            print(area, v, verdict, detail if detail else "", flush=True)


if __name__ == "__main__":
    main()
