#!/usr/bin/env python3
"""Confirms seeded changes produced by independent sub-agents and files them under /verif/seeded/.

For every /tmp/mut/out/<prop>/m<i>/: in a scratch copy of /repo (outside /repo and /verif)
  1. the demo passes on the unchanged tree,
  2. the patch applies, the crate compiles and the existing suite passes with it,
  3. the demo fails with the change.
Only then is it kept as /verif/seeded/<prop>-m<i>/{patch.diff, demo.rs, notes.md, meta.json}."""
import json, os, re, shutil, subprocess, sys, concurrent.futures as cf

SRC = os.environ.get("SEEDED_SRC", "/tmp/mut/out")
DST = "/verif/seeded"


def sh(cmd, cwd, env=None, timeout=900):
    e = dict(os.environ, CARGO_NET_OFFLINE="true")
    if env:
        e.update(env)
    p = subprocess.run(cmd, cwd=cwd, env=e, stdout=subprocess.PIPE, stderr=subprocess.STDOUT, text=True, timeout=timeout)
    return p.returncode, p.stdout


def confirm(prop, m):
    d = os.path.join(SRC, prop, m)
    patch = os.path.join(d, "patch.diff")
    demo = os.path.join(d, "demo.rs")
    if not (os.path.exists(patch) and os.path.exists(demo)):
        return prop, m, "incomplete", {}
    notes = open(os.path.join(d, "notes.md")).read() if os.path.exists(os.path.join(d, "notes.md")) else ""
    root = "/tmp/confirm/%s-%s" % (prop, m)
    shutil.rmtree(root, ignore_errors=True)
    os.makedirs(root)
    repo = os.path.join(root, "repo")
    try:
        subprocess.run(["rsync", "-a", "--exclude", "target", "--exclude", ".git", "/repo/", repo + "/"], check=True)
        feats = ["--features", "serde,serde_repr"] if prop == "C19" else []
        demo_txt = open(demo).read()
        flags = "--cfg helgoboss_midi_verif" if "verif_hooks" in demo_txt else ""
        env = {"CARGO_TARGET_DIR": os.path.join(root, "target")}
        if flags:
            env["RUSTFLAGS"] = flags
        shutil.copy(demo, os.path.join(repo, "tests", "demo.rs"))
        rc0, out0 = sh(["cargo", "test", "--offline", "--test", "demo"] + feats, repo, env)
        os.remove(os.path.join(repo, "tests", "demo.rs"))
        r = subprocess.run(["patch", "-p1", "-d", repo, "-i", patch, "--no-backup-if-mismatch"], capture_output=True, text=True)
        if r.returncode != 0:
            return prop, m, "patch-does-not-apply", {"detail": (r.stdout + r.stderr)[-300:]}
        rc1, out1 = sh(["cargo", "test", "--offline"], repo, {"CARGO_TARGET_DIR": os.path.join(root, "target")})
        shutil.copy(demo, os.path.join(repo, "tests", "demo.rs"))
        rc2, out2 = sh(["cargo", "test", "--offline", "--test", "demo"] + feats, repo, env)
        res = {"demo_passes_without_change": rc0 == 0, "suite_passes_with_change": rc1 == 0,
               "demo_fails_with_change": rc2 != 0}
        ok = all(res.values())
        if ok:
            out = os.path.join(DST, "%s-%s" % (prop, m))
            os.makedirs(out, exist_ok=True)
            # store the patch as it applies to the current /repo
            for f in ("demo.rs", "notes.md"):
                if os.path.exists(os.path.join(d, f)):
                    shutil.copy(os.path.join(d, f), out)
            shutil.copy(patch, os.path.join(out, "patch.diff"))
            needs = ""
            mm = re.search(r"(?is)(needs?|trigger|manifest)[^\n]*\n?(.{0,400})", notes)
            meta = {"property": prop, "id": "%s-%s" % (prop, m), "origin": "independent sub-agent given only the property text and a scratch worktree",
                    "needs_to_manifest": notes.strip()[:1200],
                    "confirmed": res,
                    "commands": ["cargo test --offline --test demo (unchanged tree): pass",
                                 "patch -p1 < patch.diff; cargo test --offline: pass",
                                 "cargo test --offline --test demo%s%s (changed tree): FAIL" % (" " + " ".join(feats) if feats else "", " with RUSTFLAGS=" + flags if flags else "")],
                    "demo_needs_cfg": bool(flags), "demo_features": feats}
            json.dump(meta, open(os.path.join(out, "meta.json"), "w"), indent=1)
        return prop, m, "confirmed" if ok else "not-confirmed", res if not ok else {}
    finally:
        shutil.rmtree(root, ignore_errors=True)


def main():
    items = []
    for prop in sorted(os.listdir(SRC)):
        p = os.path.join(SRC, prop)
        if os.path.isdir(p):
            for m in sorted(os.listdir(p)):
                if os.path.isdir(os.path.join(p, m)):
                    items.append((prop, m))
    if len(sys.argv) > 1:
        items = [i for i in items if i[0] in sys.argv[1:] or "%s-%s" % i in sys.argv[1:]]
    with cf.ThreadPoolExecutor(4) as ex:
        for prop, m, verdict, detail in ex.map(lambda x: confirm(*x), items):
            print(prop, m, verdict, detail if detail else "", flush=True)


if __name__ == "__main__":
    main()
