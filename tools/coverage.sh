#!/bin/bash
# Audit (not a registered check): which lines/regions of /repo/src do the conformance runs of the
# given tier actually execute?  Lines never executed cannot be bound to the specification by replay
# or trace validation, so every uncovered region is either dead/unreachable through the public API,
# or a gap to close.   usage: tools/coverage.sh [quick|thorough] [PROPS...]
# Writes work/cov/report.txt (per file) and work/cov/uncovered.txt (line ranges never executed).
set -u
cd /verif
tier=${1:-quick}; shift || true
props=${*:-C01 C02 C03 C04 C05 C06 C07 C08 C09 C10 C11 C12 C13 C14 C15 C16 C17 C18 C19}
cov=/verif/work/cov; rm -rf $cov; mkdir -p $cov/evidence
bin=$(rustc +nightly --print sysroot)/lib/rustlib/x86_64-unknown-linux-gnu/bin
export VERIF_COVERAGE=$cov/raw VERIF_EVIDENCE_DIR=$cov/evidence
for p in $props; do ./check $p --tier $tier 2>&1 | grep -E "^(RESULT|VIOLATION|TOOL)"; done
$bin/llvm-profdata merge -sparse $cov/raw/*.profraw -o $cov/all.profdata
objs=$(sort -u $cov/raw/binaries.txt | sed 's/^/-object /' | tr '\n' ' ')
first=$(sort -u $cov/raw/binaries.txt | head -1)
$bin/llvm-cov report $first $objs -instr-profile=$cov/all.profdata --ignore-filename-regex='(registry|rustc|harness)' > $cov/report.txt
$bin/llvm-cov show $first $objs -instr-profile=$cov/all.profdata --ignore-filename-regex='(registry|rustc|harness|test_util|verif_hooks)' --show-line-counts-or-regions > $cov/show.txt
python3 - <<'PY'
import re
cur=None; out=[]
for l in open('/verif/work/cov/show.txt'):
    m=re.match(r'^(/\S+\.rs):$', l.strip())
    if m: cur=m.group(1); continue
    m=re.match(r'^\s*(\d+)\|\s*0\|(.*)$', l)
    if m and cur and '/repo/src' in cur:
        out.append("%s:%s: %s"%(cur.replace('/repo/',''), m.group(1), m.group(2).rstrip()))
open('/verif/work/cov/uncovered.txt','w').write("\n".join(out)+"\n")
print("uncovered lines in /repo/src:", len(out))
PY
cat $cov/report.txt | grep -E "src/|TOTAL"
rm -rf $cov/raw/*.profraw
