#!/usr/bin/env python3
"""Mutation campaign (measurement, not a registered check).

usage: tools/mutants.py [--jobs N] [--tier quick] <dir-with-patches>... | --list FILE
Each argument is a directory containing patch.diff and meta.json/notes (seeded/<id>/ layout) or
'PROP:path/to/patch.diff'.  For every patch a scratch copy of /repo is made under /tmp/mh, the
patch is applied there, the named check runs against it (VERIF_REPO), and the copy is removed."""
import concurrent.futures as cf
import json, os, shutil, subprocess, sys, time

VERIF = os.path.dirname(os.path.dirname(os.path.abspath(__file__)))


def run_one(prop, patch, tier, label):
    root = "/tmp/mh/%s-%d" % (label.replace("/", "_"), os.getpid())
    shutil.rmtree(root, ignore_errors=True)
    os.makedirs(root)
    repo = os.path.join(root, "repo")
    try:
        subprocess.run(["rsync", "-a", "--exclude", "target", "--exclude", ".git", "/repo/", repo + "/"], check=True)
        r = subprocess.run(["git", "apply", "--unsafe-paths", "--directory", repo, patch], cwd="/",
                           capture_output=True, text=True)
        if r.returncode != 0:
            r = subprocess.run(["patch", "-p1", "-d", repo, "-i", patch], capture_output=True, text=True)
            if r.returncode != 0:
                return label, prop, "patch-failed", r.stdout + r.stderr, 0
        env = dict(os.environ, VERIF_REPO=repo, VERIF_SCRATCH=root, VERIF_EVIDENCE_DIR=os.path.join(root, "ev"),
                   VERIF_REPLAY_DIR=os.path.join(root, "replays"), VERIF_TIER=tier)
        t0 = time.time()
        p = subprocess.run([os.path.join(VERIF, "check"), prop, "--tier", tier], env=env, capture_output=True, text=True)
        lines = [l for l in p.stdout.splitlines() if l.startswith(("VIOLATION", "KNOWN", "DRIFT", "TOOL-ERROR"))]
        verdict = {0: "MISSED", 1: "caught", 2: "tool-error"}.get(p.returncode, "rc%d" % p.returncode)
        return label, prop, verdict, "\n".join(l[:300] for l in lines[:3]), time.time() - t0
    finally:
        shutil.rmtree(root, ignore_errors=True)


def main():
    args = sys.argv[1:]
    jobs, tier, items = 4, "quick", []
    while args:
        a = args.pop(0)
        if a == "--jobs":
            jobs = int(args.pop(0))
        elif a == "--tier":
            tier = args.pop(0)
        elif ":" in a:
            prop, patch = a.split(":", 1)
            items.append((prop, os.path.abspath(patch), prop + "-" + os.path.basename(os.path.dirname(patch))))
        else:
            meta = json.load(open(os.path.join(a, "meta.json")))
            for prop in meta.get("checks", [meta["property"]]):
                items.append((prop, os.path.abspath(os.path.join(a, "patch.diff")), os.path.basename(a.rstrip("/")) + "@" + prop))
    with cf.ThreadPoolExecutor(jobs) as ex:
        futs = [ex.submit(run_one, p, pa, tier, lab) for p, pa, lab in items]
        for f in cf.as_completed(futs):
            label, prop, verdict, detail, dt = f.result()
            print("%-22s %-4s %-10s %5.0fs  %s" % (label, prop, verdict, dt, detail.replace("\n", " | ")[:400]), flush=True)


if __name__ == "__main__":
    main()
