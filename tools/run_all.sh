#!/bin/bash
# Runs every registered quick (or given tier) check on the current tree; summary on stdout.
cd "$(dirname "$0")/.."
tier=${1:-quick}
for p in C01 C02 C03 C04 C05 C06 C07 C08 C09 C10 C11 C12 C13 C14 C15 C16 C17 C18 C19; do
  ./check $p --tier $tier 2>/dev/null | grep -E "^(VIOLATION|KNOWN|DRIFT|TOOL-ERROR|RESULT|NOTE)" | cut -c1-200
done
