#!/usr/bin/env python3
"""Design-level self-test of the specification (measurement, not a registered check): each entry
mutates the implementation-shaped MACHINE (never a monitor) and TLC must report that a property
monitor / invariant is violated.  Shows that the monitors are not vacuous on the design."""
import os, shutil, subprocess, sys, tempfile

VERIF = os.path.dirname(os.path.dirname(os.path.abspath(__file__)))
ALL_CNS = "{" + ", ".join(str(i) for i in range(128)) + "}"
CFG = {
 "MC_Cc14": "SPECIFICATION Spec\nCONSTANTS\n V = {0, 1, 127}\n Cns = %s\n RtVals = {0, 1, 127, 128, 16383}\nVIEW View\nPROPERTY P_C08 P_C16 P_C17\nINVARIANT I_C07 I_Ghost\nCHECK_DEADLOCK FALSE\n" % ALL_CNS,
 "MC_Pn": "SPECIFICATION Spec\nCONSTANTS\n V = {0, 1, 127}\n ExtraCns = {5, 7, 37}\nVIEW View\nPROPERTY P_C11 P_C16 P_C17\nINVARIANT I_C10 I_C10run I_Ghost\nCHECK_DEADLOCK FALSE\n",
 "MC_Poll": "SPECIFICATION Spec\nCONSTANTS\n V = {0, 127}\n ExtraCns = {5, 7}\n TOc = 2\n CAP = 2\nVIEW View\nPROPERTY P_Mon P_C13early P_C16 P_C17\nINVARIANT I_C13time I_C12enc\nCHECK_DEADLOCK FALSE\n",
 "MC_Sender": "SPECIFICATION Spec\nCONSTANTS\n Chans = {0}\n V = {0, 127}\n TOc = 2\n CAP = 2\n Emitting = FALSE\n MaxN = 0\nVIEW View\nPROPERTY P_C12\nCHECK_DEADLOCK FALSE\n",
}
MUTANTS = [
 ("cc14: LSB range off by one", "Cc14Scanner.tla", "ELSE IF CcNum(m) <= 63 THEN Cc14ProcessValueLsb", "ELSE IF CcNum(m) <= 62 THEN Cc14ProcessValueLsb", "MC_Cc14"),
 ("cc14: MSB forgotten after a report", "Cc14Scanner.tla", "ELSE [st |-> st, out |-> << <<c, st.cn, Join(st.v, v)>> >>]", "ELSE [st |-> Cc14Init, out |-> << <<c, st.cn, Join(st.v, v)>> >>]", "MC_Cc14"),
 ("cc14: LSB matched with the wrong offset", "Cc14Scanner.tla", "ELSE IF n # st.cn + 32 ", "ELSE IF n # st.cn + 31 ", "MC_Cc14"),
 ("pn: number MSB does not clear the value LSB", "PnScanner.tla", "PnProcessNumberMsb(st, b, reg) == [st |-> [st EXCEPT !.vl = None, !.nm = b", "PnProcessNumberMsb(st, b, reg) == [st |-> [st EXCEPT !.nm = b", "MC_Pn"),
 ("pn: kind not updated by number LSB", "PnScanner.tla", "PnProcessNumberLsb(st, b, reg) == [st |-> [st EXCEPT !.vl = None, !.nl = b, !.reg = reg]", "PnProcessNumberLsb(st, b, reg) == [st |-> [st EXCEPT !.vl = None, !.nl = b]", "MC_Pn"),
 ("poll: poll compares with > instead of >=", "PollingScanner.tla", "Expired(at, now, to) == to # Inf /\\ now - at >= to", "Expired(at, now, to) == to # Inf /\\ now - at > to", "MC_Poll"),
 ("poll: resolve reports a lone LSB", "PollingScanner.tla", "Resolve(st, c) == IF st.ismsb THEN", "Resolve(st, c) == IF TRUE THEN", "MC_Poll"),
 ("poll: arrival time not restamped on MSB after MSB", "PollingScanner.tla", "THEN [st |-> Vp(st.nm, st.nl, st.reg, now, v, TRUE),\n                 out |-> << Pn7(c, PNum(st), st.b, st.reg, DtEntry) >>]", "THEN [st |-> Vp(st.nm, st.nl, st.reg, st.at, v, TRUE),\n                 out |-> << Pn7(c, PNum(st), st.b, st.reg, DtEntry) >>]", "MC_Poll"),
 ("poll: MSB dropped by inc/dec (no flush)", "PollingScanner.tla", "out |-> << Pn7(c, PNum(st), st.b, st.reg, DtEntry),\n                            Pn7(c, PNum(st), v, st.reg, dt) >>]", "out |-> << Pn7(c, PNum(st), v, st.reg, dt) >>]", "MC_Poll"),
 ("poll: flush carries the NEW number", "PollingScanner.tla", "out |-> Resolve(st, c)]", "out |-> Resolve([st EXCEPT !.nm = IF ismsb THEN byte ELSE st.nm], c)]", "MC_Poll"),
 ("poll (sender): further LSB combined with the old LSB", "PollingScanner.tla", "[st |-> Fvc(st.nm, st.nl, st.reg, v, st.b),", "[st |-> Fvc(st.nm, st.nl, st.reg, st.b, v),", "MC_Sender"),
 ("poll: registered flag of a mixed-kind number taken from the MSB byte (PERMITTED reading: must be accepted)", "PollingScanner.tla",
  "                ELSE [st |-> Wfv(IF st.ismsb THEN st.fb ELSE byte,          \\* complete\n                                 IF st.ismsb THEN byte ELSE st.fb, reg), out |-> <<>>]",
  "                ELSE [st |-> Wfv(IF st.ismsb THEN st.fb ELSE byte,\n                                 IF st.ismsb THEN byte ELSE st.fb, IF ismsb THEN reg ELSE st.reg), out |-> <<>>]", "MC_Poll"),
 ("poll: a second LSB replaces the pending LSB (PERMITTED behaviour change: must be accepted)", "PollingScanner.tla", "ELSE [st |-> Wfv(st.nm, st.nl, st.reg), out |-> <<>>]           \\* LSB after LSB", "ELSE [st |-> Vp(st.nm, st.nl, st.reg, now, v, FALSE), out |-> <<>>]", "MC_Poll"),
]


def main():
    ok = True
    for name, fname, old, new, module in MUTANTS:
        d = tempfile.mkdtemp(prefix="selftest_", dir="/tmp")
        try:
            for sub in ("", "mc"):
                for f in os.listdir(os.path.join(VERIF, "spec", sub)):
                    if f.endswith(".tla"):
                        shutil.copy(os.path.join(VERIF, "spec", sub, f), d)
            p = os.path.join(d, fname)
            s = open(p).read()
            if old not in s:
                print("NOT-APPLICABLE  %s (pattern not found)" % name); ok = False; continue
            open(p, "w").write(s.replace(old, new, 1))
            open(os.path.join(d, module + ".cfg"), "w").write(CFG[module])
            r = subprocess.run(["timeout", "900", "tlc", "-workers", "8", "-metadir", os.path.join(d, "meta"), "-cleanup",
                                "-noGenerateSpecTE", "-config", module + ".cfg", module + ".tla"], cwd=d,
                               capture_output=True, text=True)
            viol = [l for l in r.stdout.splitlines() if "is violated" in l or "Action property" in l]
            rejected = bool(viol)
            expect_accept = "must be accepted" in name
            good = (not rejected) if expect_accept else rejected
            ok &= good
            print("%-9s %s  -> %s" % ("ok" if good else "UNEXPECTED", name, (viol[0].strip()[:90] if viol else "no violation")))
        finally:
            shutil.rmtree(d, ignore_errors=True)
    sys.exit(0 if ok else 1)


if __name__ == "__main__":
    main()
